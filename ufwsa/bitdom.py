"""K8 BIT: GF(2)-affine bit-provenance abstract interpreter.

Abstract value of an integer/float object = vector of bits; each bit is either
TOP or an affine form  c XOR s1 XOR s2 ...  over input-bit symbols.  The
transfer functions below are exact (no over-approximation other than TOP) for
the operations listed in DESIGN.md section 3/K8.  Loop-free functions only.

Bits are represented as (c, frozenset(symbols)) or None (TOP).
Symbols are strings: 'value.5' (bit 5 of parameter value),
'ptr[2].7' (bit 7 of the octet at ptr+2).
"""
from . import cast

TOP = None
ZERO = (0, frozenset())
ONE = (1, frozenset())


class Unsupported(Exception):
    """Construct outside the domain -> rule instance is BROKEN, not violated."""


class NeedSplit(Exception):
    """An ordering comparison depends on a non-constant bit: the caller fixes that
    bit both ways (run_split) and interprets the function once per case."""
    def __init__(self, bit):
        Exception.__init__(self, 'case split')
        self.bit = bit


def subst_bit(b, assume):
    """apply {atom: affine bit} to an affine bit"""
    if b is TOP or not assume or not b[1]:
        return b
    c, atoms = b
    if not any(a in assume for a in atoms):
        return b
    out = set()
    for a in atoms:
        if a in assume:
            fc, fa = assume[a]
            c ^= fc
            out ^= set(fa)
        else:
            out ^= {a}
    return (c, frozenset(out))


def subst_bits(bits, assume):
    return [subst_bit(b, assume) for b in bits] if assume else list(bits)


def run_split(ip, fname, args, max_leaves=2048):
    """Exact case analysis: returns [(assume, ret, stores, loads)] where the assumptions
    partition the input space; each assumption is a triangular substitution
    {atom: affine form of other atoms} under which every ordering comparison met on the
    way had a definite (constant or affine) outcome."""
    work = [{}]
    leaves = []
    runs = 0
    while work:
        asm = work.pop()
        ip.assume = asm
        ip.splitting = True
        runs += 1
        try:
            r = ip.run(fname, args)
        except NeedSplit as sp:
            c, atoms = sp.bit
            a = min(atoms)
            for v in (0, 1):
                form = (c ^ v, frozenset(atoms - {a}))
                new = {k: subst_bit(f, {a: form}) for k, f in asm.items()}
                new[a] = form
                work.append(new)
            if len(work) + len(leaves) > max_leaves or runs > 4 * max_leaves:
                raise Unsupported('case-split budget exceeded')
            continue
        finally:
            ip.assume = {}
            ip.splitting = False
        leaves.append((asm,) + tuple(r))
    return leaves


def bxor(a, b):
    if a is TOP or b is TOP:
        return TOP
    return (a[0] ^ b[0], a[1] ^ b[1])


def bnot(a):
    if a is TOP:
        return TOP
    return (a[0] ^ 1, a[1])


def is_const(b):
    return b is not TOP and not b[1]


def band(a, b):
    if is_const(a):
        return b if a[0] else ZERO
    if is_const(b):
        return a if b[0] else ZERO
    if a is not TOP and a == b:
        return a
    if a is not TOP and b is not TOP and a == bnot(b):
        return ZERO
    return TOP


def bor(a, b):
    if is_const(a):
        return ONE if a[0] else b
    if is_const(b):
        return ONE if b[0] else a
    if a is not TOP and a == b:
        return a
    if a is not TOP and b is not TOP and a == bnot(b):
        return ONE
    return TOP


def bmajority(x, y, c):
    """carry of a full adder; TOP when it is not an affine function of the inputs"""
    if x is TOP or y is TOP or c is TOP:
        return TOP
    if x == y or x == c:
        return x
    if y == c:
        return y
    for p, q, r in ((x, y, c), (y, x, c), (c, x, y)):
        if is_const(p):
            return bor(q, r) if p[0] else band(q, r)
    # x ^ y constant 1: the carry is c; likewise for the other pairs
    for p, q, r in ((x, y, c), (x, c, y), (y, c, x)):
        if p == bnot(q):
            return r
    return TOP


def bmux(c, x, y):
    """c ? x : y"""
    if is_const(c):
        return x if c[0] else y
    if x is not TOP and x == y:
        return x
    if x is TOP or y is TOP or c is TOP:
        return TOP
    d = bxor(x, y)
    if is_const(d):
        return y if d[0] == 0 else bxor(y, c)
    return TOP


class BV:
    """bit vector value with C type info"""
    __slots__ = ('bits', 'signed', 'isfloat')

    def __init__(self, bits, signed=False, isfloat=False):
        self.bits = tuple(bits)
        self.signed = signed
        self.isfloat = isfloat

    @property
    def width(self):
        return len(self.bits)

    @staticmethod
    def const(v, width, signed=False):
        v &= (1 << width) - 1
        return BV([(ONE if (v >> i) & 1 else ZERO) for i in range(width)], signed)

    @staticmethod
    def sym(name, width, signed=False, isfloat=False):
        return BV([(0, frozenset(['%s.%d' % (name, i)])) for i in range(width)], signed, isfloat)

    def const_value(self):
        v = 0
        for i, b in enumerate(self.bits):
            if not is_const(b):
                return None
            v |= b[0] << i
        if self.signed and self.bits and self.bits[-1][0]:
            v -= 1 << self.width
        return v

    def has_top(self):
        return any(b is TOP for b in self.bits)

    def convert(self, width, signed):
        """integral conversion to (width, signed)"""
        bits = list(self.bits[:width])
        if len(bits) < width:
            ext = bits[-1] if (self.signed and bits) else ZERO
            bits += [ext] * (width - len(bits))
        return BV(bits, signed)

    def __repr__(self):
        def r(b):
            if b is TOP:
                return 'T'
            if not b[1]:
                return str(b[0])
            return ('~' if b[0] else '') + '^'.join(sorted(b[1]))
        return 'BV[%s]' % ','.join(r(b) for b in self.bits)


class RecordSym:
    """symbolic by-value record argument: byte i bit b is symbol name[i].b"""
    def __init__(self, name):
        self.name = name


class Ptr:
    """pointer to byte `off` of object `base` (('param', name) or ('local', id))"""
    __slots__ = ('base', 'off', 'elem')

    def __init__(self, base, off=0, elem=1):
        self.base = base
        self.off = off
        self.elem = elem      # pointee size in bytes (for arithmetic)

    def __repr__(self):
        return 'Ptr(%s+%d/%d)' % (self.base, self.off, self.elem)


TYPE_INFO = {
    '_Bool': (8, False, False), 'bool': (8, False, False),
    'char': (8, True, False), 'signed char': (8, True, False), 'unsigned char': (8, False, False),
    'short': (16, True, False), 'unsigned short': (16, False, False),
    'int': (32, True, False), 'unsigned int': (32, False, False),
    'long': (64, True, False), 'unsigned long': (64, False, False),
    'long long': (64, True, False), 'unsigned long long': (64, False, False),
    'float': (32, False, True), 'double': (64, False, True),
}


def type_info(qt):
    """(width, signed, isfloat) | ('ptr', elemsize) | ('record', name) | None"""
    qt = qt.replace('const ', '').replace('volatile ', '').strip()
    if qt.endswith('const'):
        qt = qt[:-5].strip()
    if qt.endswith('*'):
        pointee = qt[:-1].strip()
        ti = type_info(pointee)
        if isinstance(ti, tuple) and len(ti) == 3:
            return ('ptr', ti[0] // 8)
        return ('ptr', 1)
    if qt in TYPE_INFO:
        return TYPE_INFO[qt]
    if qt.startswith('union ') or qt.startswith('struct '):
        return ('record', qt.split(' ', 1)[1])
    if qt.startswith('enum '):
        return (32, False, False)
    return None


def resolve_typedefs(u, qt):
    """expand typedef names inside a (pointer to) scalar type string"""
    import re
    for _ in range(10):
        changed = False

        def rep(m):
            nonlocal changed
            w = m.group(0)
            if w in u.typedefs and w not in TYPE_INFO:
                tt = u.typedefs[w]
                changed = True
                return tt.get('desugaredQualType') or tt.get('qualType')
            return w
        qt = re.sub(r'(?<!struct )(?<!union )(?<!enum )\b[A-Za-z_]\w*', rep, qt)
        if not changed:
            break
    return qt


class Interp:
    """Interprets loop-free functions of one unit."""

    def __init__(self, unit, big_endian=False, linear_tables=None, max_depth=8, hooks=None,
                 skip_guard_returns=False):
        self.hooks = hooks or {}
        self.skip_guard_returns = skip_guard_returns
        self.tolerate_return = False
        self.u = unit
        self.big = big_endian
        self.linear_tables = linear_tables or {}   # name -> (list of ints, elemwidth)
        self.max_depth = max_depth
        self.visited_functions = set()
        self.assume = {}
        self.splitting = False       # set by run_split: non-affine decisions raise NeedSplit instead of going TOP

    # -- types ----------------------------------------------------------
    def tinfo(self, node):
        t = node.get('type', {})
        qt = t.get('desugaredQualType') or t.get('qualType') or ''
        ti = self.tinfo_qt(qt)
        if ti is None:
            raise Unsupported('type %r' % qt)
        return ti

    def tinfo_qt(self, qt):
        return type_info(resolve_typedefs(self.u, qt))

    def record_layout(self, name):
        """field name -> (byte offset, type info); nested records are kept as
        ('record', name) fields with their own layout (natural alignment)."""
        c = self.__dict__.setdefault('_layouts', {})
        if name in c:
            return c[name]
        r = self.u.records.get(name)
        if r is None:
            raise Unsupported('record %s' % name)
        is_union = r.get('tagUsed') == 'union'
        off = 0
        size = 0
        maxal = 1
        fields = {}
        for f in cast.inner(r):
            if f.get('kind') != 'FieldDecl':
                continue
            ti = self.tinfo(f)
            if isinstance(ti, tuple) and len(ti) == 3:
                nbytes = ti[0] // 8
                al = nbytes
            elif ti[0] == 'ptr':
                nbytes = al = 8
            elif ti[0] == 'record':
                sub, nbytes = self.record_layout(ti[1])
                al = self._align.get(ti[1], 1)
            else:
                raise Unsupported('field type in %s' % name)
            maxal = max(maxal, al)
            if is_union:
                fields[f['name']] = (0, ti)
                size = max(size, nbytes)
            else:
                off = (off + al - 1) // al * al
                fields[f['name']] = (off, ti)
                off += nbytes
                size = off
        size = (size + maxal - 1) // maxal * maxal
        self._align[name] = maxal
        c[name] = (fields, size)
        return c[name]

    @property
    def _align(self):
        return self.__dict__.setdefault('_align_d', {})

    # -- function application ---------------------------------------------
    def run(self, fname, args, depth=0):
        """args: list of BV/Ptr. Returns (retval, stores, loads) where stores is
        {(base, byteoff): [8 bits]} for parameter memory and loads a set of
        (base, byteoff)."""
        if depth > self.max_depth:
            raise Unsupported('call depth')
        f = self.u.fn(fname)
        if f is None:
            raise Unsupported('no body for %s' % fname)
        self.visited_functions.add(fname)
        fr = Frame(self, fname, depth)
        params = self.u.params(fname)
        if len(params) != len(args):
            raise Unsupported('arity %s' % fname)
        for p, a in zip(params, args):
            if depth == 0 and self.assume and isinstance(a, BV):
                a = BV(subst_bits(a.bits, self.assume), a.signed, a.isfloat)
            fr.declare(p, a)
        body = self.u.body(fname)
        fr.exec_block(body)
        if not fr.returned and fr.ret is None:
            pass
        return fr.ret, fr.stores, fr.loads


class Frame:
    def __init__(self, ip, fname, depth):
        self.ip = ip
        self.fname = fname
        self.depth = depth
        self.objs = {}       # decl id -> dict(bits=[...], size=bytes) for scalars/records; or Ptr
        self.ret = None
        self.returned = False
        self.stores = {}
        self.loads = set()
        self.guard = ONE     # current path guard bit (for if without else)

    # objects are byte-addressable: bits list of size*8 in memory order
    def declare(self, decl, value):
        ti = self.ip.tinfo(decl)
        if ti[0] == 'ptr':
            if value is None:
                value = Ptr(('undef', decl['name']))
            if not isinstance(value, Ptr):
                raise Unsupported('non-pointer value for pointer %s' % decl.get('name'))
            self.objs[decl['id']] = {'ptr': Ptr(value.base, value.off, ti[1])}
            return
        if ti[0] == 'record':
            fields, size = self.ip.record_layout(ti[1])
            bits = [ZERO] * (size * 8)
            if isinstance(value, RecordSym):
                bits = [(0, frozenset(['%s[%d].%d' % (value.name, i // 8, i % 8)])) for i in range(size * 8)]
            self.objs[decl['id']] = {'bits': bits, 'size': size, 'record': ti[1]}
            return
        width = ti[0]
        if value is None:
            bits = [TOP] * width
        else:
            bits = list(value.convert(width, ti[1]).bits) if not ti[2] else list(value.bits)
            if len(bits) != width:
                raise Unsupported('float width')
        self.objs[decl['id']] = {'bits': self.to_mem(bits), 'size': width // 8}

    def to_mem(self, bits):
        """value bits (LSB first) -> memory-order bits"""
        n = len(bits) // 8
        if not self.ip.big or n <= 1:
            return list(bits)
        out = []
        for i in range(n):
            j = n - 1 - i
            out += bits[8 * j: 8 * j + 8]
        return out

    from_mem = to_mem   # involution

    # -- lvalues -----------------------------------------------------------
    def lvalue(self, n):
        """-> ('obj', declid, byteoff, typeinfo) | ('mem', base, byteoff, typeinfo)"""
        n0 = n
        n = cast.strip(n) if cast.kind(n) == 'ParenExpr' else n
        k = cast.kind(n)
        if k == 'ParenExpr':
            return self.lvalue(n['inner'][0])
        if k == 'DeclRefExpr':
            d = n['referencedDecl']
            if d['id'] not in self.objs:
                raise Unsupported('unknown object %s' % d.get('name'))
            return ('obj', d['id'], 0, self.ip.tinfo(n))
        if k == 'MemberExpr':
            if n.get('isArrow'):
                p = self.rvalue(n['inner'][0])
                if not isinstance(p, Ptr):
                    raise Unsupported('-> on non-pointer')
                bt = n['inner'][0].get('type', {})
                qt = resolve_typedefs(self.ip.u, (bt.get('desugaredQualType') or bt.get('qualType') or ''))
                qt = qt.replace('const ', '').strip()
                if not qt.endswith('*'):
                    raise Unsupported('-> base type %s' % qt)
                rt = type_info(qt[:-1].strip())
                if not rt or rt[0] != 'record':
                    raise Unsupported('-> on pointer to %s' % qt)
                fields, _ = self.ip.record_layout(rt[1])
                off, ti = fields[n['name']]
                d = self.deref(Ptr(p.base, p.off, 1), ti)
                return (d[0], d[1], d[2] + off, ti)
            base = self.lvalue(n['inner'][0])
            bt = base[3]
            if bt[0] != 'record':
                raise Unsupported('member of non-record')
            fields, _ = self.ip.record_layout(bt[1])
            off, ti = fields[n['name']]
            return (base[0], base[1], base[2] + off, ti)
        if k == 'ArraySubscriptExpr':
            p = self.rvalue(n['inner'][0])
            i = self.rvalue(n['inner'][1])
            if not isinstance(p, Ptr):
                raise Unsupported('subscript of non-pointer')
            iv = i.const_value() if isinstance(i, BV) else None
            if iv is None:
                raise Unsupported('non-constant subscript')
            return self.deref(Ptr(p.base, p.off + iv * p.elem, p.elem), self.ip.tinfo(n))
        if k == 'UnaryOperator' and n['opcode'] == '*':
            p = self.rvalue(n['inner'][0])
            if not isinstance(p, Ptr):
                raise Unsupported('deref of non-pointer')
            return self.deref(p, self.ip.tinfo(n))
        raise Unsupported('lvalue kind %s' % k)

    def deref(self, p, ti):
        if p.base[0] == 'local':
            return ('obj', p.base[1], p.off, ti)
        if p.base[0] == 'param':
            return ('mem', p.base, p.off, ti)
        raise Unsupported('deref of %r' % (p.base,))

    def load(self, lv):
        kind_, ident, off, ti = lv
        if ti[0] == 'ptr':
            if kind_ == 'obj' and 'ptr' in self.objs[ident]:
                return self.objs[ident]['ptr']
            raise Unsupported('load of pointer from memory')
        if ti[0] == 'record':
            raise Unsupported('record rvalue')
        width, signed, isfloat = ti
        nb = width // 8
        if kind_ == 'obj':
            o = self.objs[ident]
            if 'bits' not in o:
                raise Unsupported('scalar load from pointer object')
            if off + nb > o['size']:
                raise Unsupported('out-of-object load')
            bits = o['bits'][off * 8:(off + nb) * 8]
        else:
            bits = []
            for i in range(nb):
                key = (ident, off + i)
                if key in self.stores:
                    bits += self.stores[key]
                else:
                    self.loads.add(key)
                    bits += subst_bits([(0, frozenset(['%s[%d].%d' % (ident[1], off + i, b)])) for b in range(8)],
                                       self.ip.assume)
        return BV(self.from_mem(bits), signed, isfloat)

    def store(self, lv, val):
        kind_, ident, off, ti = lv
        if ti[0] == 'ptr':
            if kind_ == 'obj' and isinstance(val, Ptr):
                if self.guard != ONE:
                    raise Unsupported('guarded pointer store')
                self.objs[ident] = {'ptr': Ptr(val.base, val.off, ti[1])}
                return
            raise Unsupported('pointer store')
        if not isinstance(val, BV):
            raise Unsupported('store of non-scalar')
        width, signed, isfloat = ti
        nb = width // 8
        v = val if (isfloat or val.isfloat) else val.convert(width, signed)
        if v.width != width:
            raise Unsupported('width mismatch in store')
        bits = self.to_mem(list(v.bits))
        if kind_ == 'obj':
            o = self.objs[ident]
            if off + nb > o['size']:
                raise Unsupported('out-of-object store')
            old = o['bits'][off * 8:(off + nb) * 8]
            new = [bmux(self.guard, b, ob) for b, ob in zip(bits, old)]
            o['bits'][off * 8:(off + nb) * 8] = new
        else:
            if self.guard != ONE:
                raise Unsupported('guarded store to parameter memory')
            for i in range(nb):
                self.stores[(ident, off + i)] = bits[8 * i:8 * i + 8]

    # -- expressions -------------------------------------------------------
    def rvalue(self, n):
        k = cast.kind(n)
        if k in ('ParenExpr', 'ConstantExpr'):
            return self.rvalue(n['inner'][0])
        if k == 'IntegerLiteral' or k == 'CharacterLiteral':
            w, s, _ = self.ip.tinfo(n)
            return BV.const(int(n['value']), w, s)
        if k == 'ImplicitCastExpr' or k == 'CStyleCastExpr':
            ck = n.get('castKind')
            sub = n['inner'][0]
            if ck == 'LValueToRValue':
                return self.load(self.lvalue(sub))
            if ck in ('NoOp',):
                return self.rvalue(sub)
            if ck == 'ToVoid':
                try:
                    self.rvalue(sub)
                except Unsupported:
                    pass
                return BV.const(0, 32, True)
            if ck == 'BitCast' or ck == 'NullToPointer':
                v = self.rvalue(sub)
                if isinstance(v, Ptr):
                    ti = self.ip.tinfo(n)
                    return Ptr(v.base, v.off, ti[1] if ti[0] == 'ptr' else 1)
                raise Unsupported('bitcast of non-pointer')
            if ck == 'ArrayToPointerDecay':
                raise Unsupported('array decay')
            if ck == 'IntegralCast' or ck == 'IntegralToBoolean':
                v = self.rvalue(sub)
                ti = self.ip.tinfo(n)
                if ck == 'IntegralToBoolean':
                    return self.nonzero(v)
                return v.convert(ti[0], ti[1])
            if ck == 'FunctionToPointerDecay' or ck == 'BuiltinFnToFnPtr':
                return self.rvalue(sub)
            if ck in ('FloatingCast', 'IntegralToFloating', 'FloatingToIntegral'):
                # a value conversion between float formats / float and integer is no bit move: rounding, and a
                # signalling NaN loses its payload bit.  Same-format casts are the identity; everything else is unknown.
                v = self.rvalue(sub)
                ti = self.ip.tinfo(n)
                if ck == 'FloatingCast' and isinstance(v, BV) and v.isfloat and len(ti) == 3 and ti[2] and ti[0] == v.width:
                    return v
                if len(ti) != 3:
                    raise Unsupported('cast kind %s to %r' % (ck, ti))
                return BV([TOP] * ti[0], ti[1], ti[2])
            if ck == 'PointerToIntegral':
                # the ADDRESS as a number: free bits of its own ('at any alignment' - whatever the code decides on them, it
                # decides for every value they can have: a test on them is a case split, each case held to the specification)
                v = self.rvalue(sub)
                ti = self.ip.tinfo(n)
                if isinstance(v, Ptr) and len(ti) >= 2 and isinstance(ti[0], int):
                    nm = 'addr(%s%+d)' % (getattr(v.base, 'name', v.base), v.off)
                    return BV(subst_bits([(0, frozenset(['%s.%d' % (nm, i)])) for i in range(ti[0])], self.ip.assume), ti[1], False)
                raise Unsupported('cast kind PointerToIntegral of %r' % (v,))
            raise Unsupported('cast kind %s' % ck)
        if k == 'DeclRefExpr':
            rd = n.get('referencedDecl', {})
            if rd.get('kind') == 'EnumConstantDecl':
                v = self.ip.u.enums.get(rd['name'])
                if v is None:
                    raise Unsupported('enum constant %s' % rd['name'])
                return BV.const(v, 32, False)
            return self.load(self.lvalue(n))
        if k == 'UnaryExprOrTypeTraitExpr':
            if n.get('name') != 'sizeof':
                raise Unsupported(n.get('name'))
            at = n.get('argType')
            if at:
                ti = type_info(at.get('desugaredQualType') or at['qualType'])
            else:
                ti = self.ip.tinfo(cast.strip(n['inner'][0]))
            if not (ti and len(ti) == 3):
                raise Unsupported('sizeof of non-scalar')
            w, s, _ = self.ip.tinfo(n)
            return BV.const(ti[0] // 8, w, s)
        if k == 'UnaryOperator':
            op = n['opcode']
            if op == '&':
                lv = self.lvalue(n['inner'][0])
                if lv[0] != 'obj':
                    raise Unsupported('& of memory')
                return Ptr(('local', lv[1]), lv[2], 1)
            if op == '*':
                return self.load(self.lvalue(n))
            if op in ('++', '--'):
                lv = self.lvalue(n['inner'][0])
                old = self.load(lv)
                if isinstance(old, Ptr):
                    new = Ptr(old.base, old.off + (old.elem if op == "++" else -old.elem), old.elem)
                elif isinstance(old, BV):
                    new = self.binop('+' if op == '++' else '-', old, BV.const(1, old.width, old.signed), n)
                else:
                    raise Unsupported('unary %s on this operand' % op)
                self.store(lv, new)
                return old if n.get('isPostfix') else new
            v = self.rvalue(n['inner'][0])
            if op == '~':
                return BV([bnot(b) for b in v.bits], v.signed)
            if op == '-':
                c = v.const_value()
                if c is None:
                    return self.add(BV.const(0, v.width, v.signed), BV([bnot(y) for y in v.bits], v.signed), ONE, v.signed)
                return BV.const(-c, v.width, v.signed)
            if op == '!':
                nz = self.nonzero(v)
                return BV([bnot(nz.bits[0])] + [ZERO] * 31, True)
            raise Unsupported('unary %s' % op)
        if k == 'BinaryOperator':
            op = n['opcode']
            if op == '=':
                v = self.rvalue(n['inner'][1])
                self.store(self.lvalue(n['inner'][0]), v)
                return v
            if op == ',':
                self.rvalue(n['inner'][0])
                return self.rvalue(n['inner'][1])
            if op in ('&&', '||'):
                return self.logical(n)
            a = self.rvalue(n['inner'][0])
            b = self.rvalue(n['inner'][1])
            return self.binop(op, a, b, n)
        if k == 'CompoundAssignOperator':
            op = n['opcode'][:-1]
            lv = self.lvalue(n['inner'][0])
            a = self.load(lv)
            b = self.rvalue(n['inner'][1])
            ct = n.get('computeResultType', {})
            ti = type_info(ct.get('desugaredQualType') or ct.get('qualType') or '')
            if ti and len(ti) == 3 and isinstance(a, BV):
                a = a.convert(ti[0], ti[1])
            r = self.binop(op, a, b, n)
            self.store(lv, r)
            return r
        if k == 'ArraySubscriptExpr' or k == 'MemberExpr':
            return self.load(self.lvalue(n))
        if k == 'CallExpr':
            return self.call(n)
        if k == 'ConditionalOperator':
            c = self.nonzero(self.rvalue(n['inner'][0])).bits[0]
            x = self.rvalue(n['inner'][1])
            y = self.rvalue(n['inner'][2])
            if not (isinstance(x, BV) and isinstance(y, BV)):
                raise Unsupported('conditional on pointers')
            return BV([bmux(c, p, q) for p, q in zip(x.bits, y.bits)], x.signed)
        raise Unsupported('expression kind %s' % k)

    def nonzero(self, v):
        if not isinstance(v, BV):
            raise Unsupported('truth value of pointer')
        nonconst = [b for b in v.bits if not is_const(b)]
        if any(is_const(b) and b[0] for b in v.bits):
            r = ONE
        elif not nonconst:
            r = ZERO
        elif len(nonconst) == 1:
            r = nonconst[0]
        elif self.ip.splitting and not any(b is TOP for b in nonconst):
            raise NeedSplit(nonconst[0])
        else:
            r = TOP
        return BV([r] + [ZERO] * 31, True)

    def add(self, a, b, cin, signed):
        """ripple-carry sum of two equally wide vectors; a carry that is no affine function of the
        input bits is decided by a case split (run_split) or is outside the domain"""
        out = []
        c = cin
        for x, y in zip(a.bits, b.bits):
            if x is TOP or y is TOP or c is TOP:
                raise Unsupported('addition of unknown bits')
            out.append(bxor(bxor(x, y), c))
            nc = bmajority(x, y, c)
            if nc is TOP:
                if self.ip.splitting:
                    raise NeedSplit([v for v in (c, x, y) if not is_const(v)][0])
                raise Unsupported('operator + on non-constants')
            c = nc
        return BV(out, signed)

    def binop(self, op, a, b, n):
        if isinstance(a, Ptr) or isinstance(b, Ptr):
            if op == '+' and isinstance(a, Ptr) and isinstance(b, BV):
                c = b.const_value()
                if c is None:
                    raise Unsupported('pointer + non-constant')
                return Ptr(a.base, a.off + c * a.elem, a.elem)
            raise Unsupported('pointer arithmetic %s' % op)
        w = max(a.width, b.width)
        if op in ('&', '|', '^'):
            f = {'&': band, '|': bor, '^': bxor}[op]
            return BV([f(x, y) for x, y in zip(a.bits, b.bits)], a.signed and b.signed)
        if op in ('<<', '>>'):
            c = b.const_value()
            if c is None or c < 0 or c >= a.width:
                raise Unsupported('shift by non-constant/out-of-range')
            if op == '<<':
                return BV([ZERO] * c + list(a.bits[:a.width - c]), a.signed)
            fill = a.bits[-1] if a.signed else ZERO
            return BV(list(a.bits[c:]) + [fill] * c, a.signed)
        if op in ('==', '!='):
            bits = []
            for x, y in zip(a.bits, b.bits):
                bits.append(bnot(bxor(x, y)))   # 1 iff equal
            if any(is_const(e) and e[0] == 0 for e in bits):
                r = ZERO
            else:
                nc = [e for e in bits if not is_const(e)]
                if not nc:
                    r = ONE
                elif len(nc) == 1:
                    r = nc[0]
                elif self.ip.splitting and not any(e is TOP for e in nc):
                    raise NeedSplit(bnot(nc[0]))
                else:
                    r = TOP
            if op == '!=':
                r = bnot(r)
            return BV([r] + [ZERO] * 31, True)
        ca, cb = a.const_value(), b.const_value()
        if op in ('<', '>=') and cb == 0 and a.signed and ca is None:
            sb = a.bits[-1]
            return BV([sb if op == '<' else bnot(sb)] + [ZERO] * 31, True)
        if ca is not None and cb is not None:
            if op == '+':
                return BV.const(ca + cb, w, a.signed and b.signed)
            if op == '-':
                return BV.const(ca - cb, w, a.signed and b.signed)
            if op == '*':
                return BV.const(ca * cb, w, a.signed and b.signed)
            if op in ('<', '>', '<=', '>='):
                r = {'<': ca < cb, '>': ca > cb, '<=': ca <= cb, '>=': ca >= cb}[op]
                return BV.const(int(r), 32, True)
        if op in ('<', '>', '<=', '>=') and a.width == b.width and not a.isfloat and not b.isfloat:
            # lexicographic from the most significant bit; the first position where the operands
            # differ decides.  A non-constant difference bit is fixed by the caller (NeedSplit).
            xs, ys = list(a.bits), list(b.bits)
            if a.signed and b.signed:
                xs[-1], ys[-1] = bnot(xs[-1]), bnot(ys[-1])
            elif a.signed != b.signed:
                raise Unsupported('mixed-sign comparison')
            for x, y in zip(reversed(xs), reversed(ys)):
                d = bxor(x, y)
                if d is TOP:
                    raise Unsupported('comparison of unknown bits')
                if not is_const(d):
                    raise NeedSplit(d)
                if d[0]:
                    gt = x                       # operands differ here: a > b iff a's bit is set
                    r = gt if op in ('>', '>=') else bnot(gt)
                    return BV([r] + [ZERO] * 31, True)
            return BV.const(int(op in ('<=', '>=')), 32, True)
        if op in ('+', '-') and a.width == b.width and not a.isfloat and not b.isfloat:
            if op == '+':
                return self.add(a, b, ZERO, a.signed and b.signed)
            return self.add(a, BV([bnot(y) for y in b.bits], b.signed), ONE, a.signed and b.signed)
        if op in ('%', '/') and not a.isfloat and not b.isfloat and not a.signed and all(is_const(y) for y in b.bits):
            # unsigned division / remainder by a constant power of two: a shift / a mask
            d = sum(y[0] << i for i, y in enumerate(b.bits))
            if d > 0 and d & (d - 1) == 0:
                k_ = d.bit_length() - 1
                if op == '%':
                    return BV(list(a.bits[:k_]) + [ZERO] * (a.width - k_), a.signed)
                return BV(list(a.bits[k_:]) + [ZERO] * k_, a.signed)
        raise Unsupported('operator %s on non-constants' % op)

    def logical(self, n):
        """&& and || with C's short circuit: the right operand is evaluated only where the left one does not decide"""
        op = n['opcode']
        l = self.nonzero(self.rvalue(n['inner'][0])).bits[0]
        if l is TOP:
            raise Unsupported('%s on unknown bits' % op)
        if is_const(l):
            if (op == '&&') != bool(l[0]):
                return BV([l] + [ZERO] * 31, True)
            r = self.nonzero(self.rvalue(n['inner'][1])).bits[0]
            return BV([r] + [ZERO] * 31, True)
        if self.ip.splitting:
            raise NeedSplit(l)
        raise Unsupported('operator %s on non-constants' % op)

    def call(self, n):
        name = cast.callee_name(n)
        args = [self.rvalue(a) for a in n['inner'][1:]]
        if name in ('__builtin_bswap16', '__builtin_bswap32', '__builtin_bswap64'):
            v = args[0]
            nb = int(name[15:]) // 8
            bits = list(v.bits[:nb * 8])
            out = []
            for i in range(nb):
                j = nb - 1 - i
                out += bits[8 * j:8 * j + 8]
            return BV(out, False)
        if name in self.ip.hooks:
            return self.ip.hooks[name](self, args, n)
        if name is None:
            raise Unsupported('indirect call')
        if self.ip.u.fn(name) is None:
            raise Unsupported('call to external %s' % name)
        # pass pointers to caller-locals as 'param' memory is not needed for bf_*;
        # locals passed by pointer are unsupported
        for a in args:
            if isinstance(a, Ptr) and a.base[0] == 'local':
                raise Unsupported('local passed by pointer to %s' % name)
            if isinstance(a, RecordSym):
                raise Unsupported('record passed by value to %s' % name)
        ret, stores, loads = self.ip.run(name, args, self.depth + 1)
        # loads in callee see caller's earlier stores only if none happened
        for key in loads:
            if key in self.stores:
                raise Unsupported('callee reads memory written earlier')
            self.loads.add(key)
        self.stores.update(stores)
        return ret

    def table_lookup(self, name, idx, n):
        tab = self.ip.linear_tables.get(name)
        if tab is None:
            raise Unsupported('lookup in table %s (not registered linear)' % name)
        values, width = tab
        nbits = (len(values) - 1).bit_length()
        for b in idx.bits[nbits:]:
            if b != ZERO:
                raise Unsupported('table index not provably in range')
        out = []
        for o in range(width):
            acc = ZERO
            for i in range(nbits):
                if (values[1 << i] >> o) & 1:
                    acc = bxor(acc, idx.bits[i])
            out.append(acc)
        return BV(out, False)

    # -- statements ----------------------------------------------------------
    def exec_block(self, n):
        for s in cast.inner(n):
            if self.returned:
                if cast.kind(s) in ('NullStmt',):
                    continue
                # statements after an unconditional return: unreachable
                return
            self.exec_stmt(s)

    def exec_stmt(self, s):
        k = cast.kind(s)
        if k is None:
            return
        if k == 'CompoundStmt':
            return self.exec_block(s)
        if k == 'NullStmt':
            return
        if k == 'DeclStmt':
            for d in cast.inner(s):
                if cast.kind(d) != 'VarDecl':
                    continue
                self.exec_decl(d)
            return
        if k == 'ReturnStmt':
            if self.guard != ONE:
                raise Unsupported('conditional return')
            inn = cast.inner(s)
            try:
                self.ret = self.rvalue(inn[0]) if inn else None
            except Unsupported:
                if not self.ip.tolerate_return:
                    raise
                self.ret = None
            self.returned = True
            return
        if k == 'IfStmt':
            inn = s['inner']
            if self.ip.skip_guard_returns and len(inn) == 2 and _only_returns(inn[1]):
                self.skipped_guards = getattr(self, 'skipped_guards', []) + [inn[0]]
                return
            c = self.nonzero(self.rvalue(inn[0])).bits[0]
            if is_const(c):
                if c[0]:
                    self.exec_stmt(inn[1])
                elif len(inn) > 2:
                    self.exec_stmt(inn[2])
                return
            if len(inn) > 2:
                if self.ip.splitting and c is not TOP:
                    raise NeedSplit(c)       # decided both ways by the case-split driver
                raise Unsupported('if/else on symbolic condition')
            old = self.guard
            if old != ONE:
                raise Unsupported('nested symbolic if')
            self.guard = c
            self.exec_stmt(inn[1])
            self.guard = old
            return
        if k in ('WhileStmt', 'ForStmt', 'DoStmt'):
            # a loop whose condition is a constant every time it is evaluated (a counted copy of a fixed number of
            # octets) is executed as it stands
            if self.guard != ONE:
                raise Unsupported('loop under a symbolic condition')
            if any(cast.kind(x) in ('BreakStmt', 'ContinueStmt', 'GotoStmt') for x in cast.walk(s)):
                raise Unsupported('loop with break/continue')
            parts = s['inner']
            init = inc = None
            if k == 'ForStmt':
                init, cond, inc, body = parts[0], parts[2], parts[3], parts[4]
            elif k == 'WhileStmt':
                cond, body = parts[0], parts[1]
            else:
                body, cond = parts[0], parts[1]
            if init is not None and cast.kind(init) is not None:
                self.exec_stmt(init)
            n_it = 0
            while True:
                if k != 'DoStmt' or n_it > 0:
                    if cond is not None and cast.kind(cond) is not None:
                        c = self.nonzero(self.rvalue(cond)).bits[0]
                        if not is_const(c):
                            raise Unsupported('loop condition depends on the input')
                        if not c[0]:
                            break
                n_it += 1
                if n_it > 256:
                    raise Unsupported('loop runs more than 256 times')
                self.exec_stmt(body)
                if self.returned:
                    raise Unsupported('return inside a loop')
                if inc is not None and cast.kind(inc) is not None:
                    self.rvalue(inc)
            return
        if k in ('SwitchStmt', 'GotoStmt'):
            raise Unsupported('control flow %s' % k)
        # expression statement
        self.rvalue(s)

    def exec_decl(self, d):
        ti = self.ip.tinfo(d)
        inn = [c for c in cast.inner(d) if 'Attr' not in (cast.kind(c) or '')]
        init = inn[0] if inn else None
        if ti[0] == 'record':
            self.declare(d, None)
            if init is not None:
                il = cast.strip(init)
                if cast.kind(il) != 'InitListExpr':
                    raise Unsupported('record init form')
                fld = il.get('field')
                fields, _ = self.ip.record_layout(ti[1])
                if fld is not None:
                    v = self.rvalue(il['inner'][0])
                    off, fti = fields[fld['name']]
                    self.store(('obj', d['id'], off, fti), v)
                else:
                    names = list(fields)
                    for nm, e in zip(names, il.get('inner', [])):
                        if cast.kind(e) == 'ImplicitValueInitExpr':
                            continue
                        off, fti = fields[nm]
                        self.store(('obj', d['id'], off, fti), self.rvalue(e))
            return
        if ti[0] == 'ptr':
            self.declare(d, self.rvalue(init) if init is not None else None)
            return
        self.declare(d, self.rvalue(init) if init is not None else None)


def _only_returns(n):
    if cast.kind(n) == 'ReturnStmt':
        return True
    if cast.kind(n) == 'CompoundStmt':
        inn = [x for x in cast.inner(n) if cast.kind(x) != 'NullStmt']
        return len(inn) == 1 and cast.kind(inn[0]) == 'ReturnStmt'
    return False


# patch table lookups into rvalue for ArraySubscript on global const arrays
_orig_lvalue = Frame.lvalue


def _rvalue_with_tables(self, n):
    if cast.kind(n) == 'ImplicitCastExpr' and n.get('castKind') == 'LValueToRValue':
        sub = cast.strip(n['inner'][0]) if cast.kind(n['inner'][0]) == 'ParenExpr' else n['inner'][0]
        if cast.kind(sub) == 'ArraySubscriptExpr':
            base = cast.strip(sub['inner'][0])
            if cast.kind(base) == 'DeclRefExpr' and base['referencedDecl']['id'] not in self.objs \
                    and base['referencedDecl'].get('kind') == 'VarDecl':
                idx = self.rvalue(sub['inner'][1])
                return self.table_lookup(base['referencedDecl']['name'], idx, n)
    return Frame._rvalue_plain(self, n)


Frame._rvalue_plain = Frame.rvalue
Frame.rvalue = _rvalue_with_tables


def _in_ctype(v, t, optype, width):
    """the value of an arithmetic node as C computes it: in the node's type (optype[t], recorded by the path engine) -
    truncated to it and, for a signed type, sign-extended to the working width (an `int` result that is widened later
    carries its sign bit upwards)"""
    if not optype or t not in optype:
        return v
    ti = type_info(optype[t].replace('const ', '').strip())
    if ti and len(ti) == 3 and isinstance(ti[0], int) and ti[0] < width:
        return v.convert(ti[0], ti[1]).convert(width, ti[1])
    return v


def term_bits(t, atoms, width=64, tables=None, optype=None):
    """exact bit vector of a sym term built from constants, & | ^ ~, shifts by
    constants and integral casts over atom terms with known widths
    (atoms: {term: (name, width, signed)}).  tables: {array name: [constants]} of GF(2)-linear
    constant tables (table[0] == 0, table[a ^ b] == table[a] ^ table[b]); a lookup table[x] is then
    the XOR of table[1 << j] over the set bits j of x."""
    if t in atoms:
        name, w, sg = atoms[t]
        return BV.sym(name, w, sg).convert(width, sg)
    k = t[0]
    if k == 'i' and tables and t[1][0] == '&' and t[1][1][0] == 'v' and t[1][1][1] in tables:
        vals = tables[t[1][1][1]]
        nb = (len(vals) - 1).bit_length()
        if len(vals) != 1 << nb or vals[0] != 0 or any(vals[a ^ b] != vals[a] ^ vals[b] for a in range(len(vals)) for b in (1 << j for j in range(nb))):
            raise Unsupported('table %s is not GF(2)-linear' % t[1][1][1])
        idx = term_bits(t[2], atoms, width, tables, optype)
        if any(b != ZERO for b in idx.bits[nb:]):
            raise Unsupported('table index not reduced to %d bits' % nb)
        out = [ZERO] * width
        for j in range(nb):
            for o in range(width):
                if (vals[1 << j] >> o) & 1:
                    out[o] = bxor(out[o], idx.bits[j])
        return BV(out, False)
    if k == 'c':
        return BV.const(t[1], width, t[1] < 0)
    if k == 'cast':
        ti = type_info(t[1])
        v = term_bits(t[2], atoms, width, tables, optype)
        if ti and len(ti) == 3:
            return v.convert(ti[0], ti[1]).convert(width, ti[1])
        return v
    if k in ('&b', '|b', '^b'):
        a, b = term_bits(t[1], atoms, width, tables, optype), term_bits(t[2], atoms, width, tables, optype)
        f = {'&b': band, '|b': bor, '^b': bxor}[k]
        return _in_ctype(BV([f(x, y) for x, y in zip(a.bits, b.bits)], False), t, optype, width)
    if k in ('<<', '>>'):
        a = term_bits(t[1], atoms, width, tables, optype)
        if t[2][0] != 'c' or not (0 <= t[2][1] < width):
            raise Unsupported('shift by non-constant')
        c = t[2][1]
        if k == '<<':
            return _in_ctype(BV([ZERO] * c + list(a.bits[:width - c]), a.signed), t, optype, width)
        fill = a.bits[-1] if a.signed else ZERO
        return _in_ctype(BV(list(a.bits[c:]) + [fill] * c, a.signed), t, optype, width)
    if k == '~':
        a = term_bits(t[1], atoms, width, tables, optype)
        return BV([bnot(x) for x in a.bits], a.signed)
    raise Unsupported('term %r outside the bit domain' % (t[0],))
