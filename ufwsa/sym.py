"""K2/K4/K5: structured-CFG path enumeration with symbolic terms and effects.

A function body is traversed along all acyclic paths.  Loops are abstracted
(never unrolled): every location assigned in the loop is replaced by a fresh
atom (havoc) at loop entry; one path continues after the loop under the negated
condition, the others run the body once from the havocked state and end at the
back edge ('loopback'), at a break (continuing after the loop) or at a return.

Terms are tuples:
  ('c', n)                 integer constant
  ('v', name)              initial value of variable/parameter
  ('f', base, field)       initial content of base->field   (base: pointer term)
  ('i', base, idx)         initial content of base[idx]
  ('&', key)               address of location key
  ('+',a,b) ('-',a,b) ('*',a,b) ('/',a,b) ('%',a,b) ('<<',a,b) ('>>',a,b)
  ('&b',a,b) ('|b',a,b) ('^b',a,b) ('neg',a) ('~',a)
  ('cmp', op, a, b)        op in '<' '<=' '==' '!='
  ('!', a)
  ('call', name, args, uid)
  ('h', tag, uid)          havoc / unknown
  ('cast', type, a)        value-changing cast
  ('struct', base, ((field, term), ...))
  ('fv', structterm, field)
  ('str', text)            string literal
  ('fn', name)             function designator
  ('flt', text)            floating literal
"""
import itertools
from . import cast, lin
from .lin import Lin

MAX_PATHS = 6000


class PathLimit(Exception):
    pass


class Unsupported(Exception):
    pass


def C(n):
    return ('c', int(n))


def is_c(t, v=None):
    return t[0] == 'c' and (v is None or t[1] == v)


_uid = itertools.count(1)


def fresh(tag):
    return ('h', tag, next(_uid))


# ---------------------------------------------------------------------------
# formatting

def fmt(t):
    if not isinstance(t, tuple):
        return str(t)
    k = t[0]
    if k == 'c':
        return str(t[1])
    if k == 'v':
        return t[1]
    if k == 'f':
        b = t[1]
        if b[0] == '&':
            return '%s.%s' % (fmt(b[1]), t[2])
        return '%s->%s' % (fmt(b), t[2])
    if k == 'i':
        if is_c(t[2], 0):
            return '*%s' % fmt(t[1])
        return '%s[%s]' % (fmt(t[1]), fmt(t[2]))
    if k == '&':
        return '&%s' % fmt(t[1])
    if k in ('+', '-', '*', '/', '%', '<<', '>>'):
        return '(%s %s %s)' % (fmt(t[1]), k, fmt(t[2]))
    if k in ('&b', '|b', '^b'):
        return '(%s %s %s)' % (fmt(t[1]), k[0], fmt(t[2]))
    if k == 'neg':
        return '-%s' % fmt(t[1])
    if k == '~':
        return '~%s' % fmt(t[1])
    if k == 'cmp':
        return '%s %s %s' % (fmt(t[2]), t[1], fmt(t[3]))
    if k == '!':
        return '!(%s)' % fmt(t[1])
    if k == 'call':
        return '%s(%s)#%d' % (t[1], ', '.join(fmt(a) for a in t[2]), t[3])
    if k == 'h':
        return '?%s#%d' % (t[1], t[2])
    if k == 'cast':
        return '(%s)%s' % (t[1], fmt(t[2]))
    if k == 'wrap':
        return 'wrap<%s>(%s)' % (t[1], fmt(t[2]))
    if k == 'struct':
        return '{%s%s}' % (fmt(t[1]) + ' with ' if t[1] else '', ', '.join('.%s=%s' % (f, fmt(v)) for f, v in t[2]))
    if k == 'fv':
        return '%s.%s' % (fmt(t[1]), t[2])
    if k == 'str':
        return '"%s"' % t[1]
    if k == 'fn':
        return t[1]
    if k == 'flt':
        return t[1]
    return repr(t)


def subterms(t):
    stk = [t]
    while stk:
        x = stk.pop()
        if isinstance(x, tuple):
            yield x
            for y in (x if x and isinstance(x[0], tuple) else x[1:]):        # a struct's field list starts with a (name, value) pair
                if isinstance(y, tuple):
                    stk.append(y)


def contains(t, sub):
    return any(x == sub for x in subterms(t))


def substitute(t, m):
    """replace subterms according to dict m (term -> term)"""
    if not isinstance(t, tuple):
        return t
    if t in m:
        return m[t]
    if t[0] in ('c', 'v', 'h', 'str', 'fn', 'flt'):
        return t
    return tuple(substitute(x, m) if isinstance(x, tuple) else x for x in t)


def rooted_at(key, base):
    """is location `key` inside the object(s) reachable from pointer term base"""
    k = key
    while isinstance(k, tuple):
        if k == base:
            return True
        if k[0] in ('f', 'i', '+', '-', 'cast'):
            k = k[1]
        elif k[0] == '&':
            k = k[1]
        else:
            return False
    return False


# ---------------------------------------------------------------------------
# simplification

def add(a, b):
    if is_c(a) and is_c(b):
        return C(a[1] + b[1])
    if is_c(b, 0):
        return a
    if is_c(a, 0):
        return b
    return ('+', a, b)


def sub(a, b):
    if is_c(a) and is_c(b):
        return C(a[1] - b[1])
    if is_c(b, 0):
        return a
    if a == b:
        return C(0)
    return ('-', a, b)


sub_ = sub


def mk_bin(op, a, b):
    if op == '+':
        return add(a, b)
    if op == '-':
        return sub(a, b)
    if is_c(a) and is_c(b):
        v = cast.fold_binop({'&b': '&', '|b': '|', '^b': '^'}.get(op, op), a[1], b[1])
        if v is not None:
            return C(v)
    if op == '*':
        if is_c(a, 1):
            return b
        if is_c(b, 1):
            return a
        if is_c(a, 0) or is_c(b, 0):
            return C(0)
    if op == '/' and is_c(b, 1):
        return a
    return (op, a, b)


_NEG = {'<': '<=', '<=': '<', '==': '!=', '!=': '=='}


def mk_cmp(op, a, b):
    """normalise to < <= == !="""
    if op == '>':
        op, a, b = '<', b, a
    elif op == '>=':
        op, a, b = '<=', b, a
    if is_c(a) and is_c(b):
        return C(int({'<': a[1] < b[1], '<=': a[1] <= b[1], '==': a[1] == b[1], '!=': a[1] != b[1]}[op]))
    if a == b and a[0] not in ('call', 'flt'):
        # x ? x on integers (a call result compared with itself is the same value as well, but keep calls opaque)
        return C(int(op in ('==', '<=')))
    # truth value compared with 0 / 1:  (x < y) == 0  ->  y <= x
    if op in ('==', '!=') and a[0] == 'cmp' and is_c(b) and b[1] in (0, 1):
        same = (b[1] == 1) == (op == '==')
        return a if same else negate(a)
    if op in ('==', '!=') and b[0] == 'cmp' and is_c(a) and a[1] in (0, 1):
        same = (a[1] == 1) == (op == '==')
        return b if same else negate(b)
    return ('cmp', op, a, b)


def negate(t):
    """logical negation of a truth-valued term"""
    if t[0] == 'c':
        return C(int(not t[1]))
    if t[0] == 'cmp':
        op, a, b = t[1], t[2], t[3]
        if op == '<':
            return ('cmp', '<=', b, a)
        if op == '<=':
            return ('cmp', '<', b, a)
        return ('cmp', _NEG[op], a, b)
    if t[0] == '!':
        return truth(t[1])
    return ('cmp', '==', t, C(0))


def truth(t):
    """term as a condition (non-zero test)"""
    if t[0] == 'c':
        return C(int(bool(t[1])))
    if t[0] == 'cmp':
        return t
    if t[0] == '!':
        return negate(truth(t[1]))
    return ('cmp', '!=', t, C(0))


# ---------------------------------------------------------------------------
# linearisation

def linearize(t):
    """term -> Lin over atom terms"""
    k = t[0]
    if k == 'c':
        return Lin.const(t[1])
    if k == 'cast' and not ('*' in t[1] or 'float' in t[1] or 'double' in t[1]):
        # integers are mathematical in K4: integral conversions are value preserving
        # (wrap-around is the business of the K4o rules)
        return linearize(t[2])
    if k == '+':
        return linearize(t[1]) + linearize(t[2])
    if k == '-':
        return linearize(t[1]) - linearize(t[2])
    if k == 'neg':
        return -linearize(t[1])
    if k == '*':
        a, b = linearize(t[1]), linearize(t[2])
        if a.is_const():
            return b.scale(a.c)
        if b.is_const():
            return a.scale(b.c)
        return Lin.atom(t)
    return Lin.atom(t)


def cond_to_lin(c):
    """condition term (assumed true) -> list of Lin constraints (<= 0); [] if
    not linear (e.g. !=)"""
    if c[0] != 'cmp':
        return []
    op, a, b = c[1], linearize(c[2]), linearize(c[3])
    if op == '<':
        return [lin.lt(a, b)]
    if op == '<=':
        return [lin.le(a, b)]
    if op == '==':
        return lin.eq(a, b)
    return []


# ---------------------------------------------------------------------------
# state, effects, paths

class Effect:
    __slots__ = ('kind', 'name', 'args', 'node', 'result', 'inloop', 'extra', 'chain', 'frame', 'pointees')

    def __init__(self, kind, name, args=(), node=None, result=None, extra=None, chain=None):
        self.kind = kind      # 'call' | 'icall' | 'store' | 'ret' | 'loop'
        self.name = name      # callee name / field-chain string / stored key
        self.args = args
        self.node = node
        self.result = result
        self.inloop = 0
        self.extra = extra
        self.chain = chain
        self.frame = None
        self.pointees = {}    # call: local object handed over by address (directly, or stored inside one) -> its value before the call

    def where(self):
        return cast.where(self.node) if self.node else ''

    def __repr__(self):
        if self.kind in ('call', 'icall'):
            return '%s %s(%s) @%s' % (self.kind, self.name, ', '.join(fmt(a) for a in self.args), self.where())
        if self.kind == 'store':
            return 'store %s := %s @%s' % (fmt(self.name), fmt(self.args[0]), self.where())
        return '%s %s' % (self.kind, self.name)


class State:
    __slots__ = ('mem', 'conds', 'effects', 'havoc_roots', 'loopdepth', 'scope', 'loops', 'shadow', 'holders')

    def __init__(self):
        self.mem = {}
        self.conds = []       # list of (cond term, node)
        self.effects = []
        self.havoc_roots = []  # pointer terms whose pointees were clobbered by calls
        self.loopdepth = 0
        self.scope = ''
        self.loops = []        # [(loop node, {key: (havoc atom, value before the loop)})]
        self.shadow = {}       # key -> last value before a call clobbered it
        self.holders = {}      # local object -> locals whose address was seen stored inside it (kept when a call havocs the holder)

    def copy(self):
        s = State()
        s.mem = dict(self.mem)
        s.conds = list(self.conds)
        s.effects = list(self.effects)
        s.havoc_roots = list(self.havoc_roots)
        s.loopdepth = self.loopdepth
        s.scope = self.scope
        s.loops = list(self.loops)
        s.shadow = dict(self.shadow)
        s.holders = dict(self.holders)
        return s


class Path:
    def __init__(self, state, end, ret=None, node=None):
        self.mem = state.mem
        self.conds = state.conds
        self.effects = state.effects
        self.loops = state.loops
        self.end = end          # 'return' | 'end' | 'loopback' | 'noreturn'
        self.ret = ret
        self.node = node        # ReturnStmt / loop node

    def cond_terms(self):
        return [c for c, _ in self.conds]

    def facts(self):
        out = []
        for c, _ in self.conds:
            out += cond_to_lin(c)
        return out

    def calls(self, name=None):
        return [e for e in self.effects if e.kind in ('call', 'icall') and (name is None or e.name == name)]

    def stores(self):
        return [e for e in self.effects if e.kind == 'store']

    def describe(self, maxc=12):
        cs = ['%s @%s' % (fmt(c), cast.node_line(n)) for c, n in self.conds[-maxc:]]
        return 'path[%s] under {%s}' % (self.end, '; '.join(cs))

    def final(self, key):
        return self.mem.get(key, key)


def field_of_value(sv, field):
    if sv[0] in ('f', 'i', 'v'):
        return ('f', ('&', sv), field)
    if sv[0] == 'struct':
        for f, v in sv[2]:
            if f == field:
                return v
        if sv[1] is None:
            return C(0)
        return field_of_value(sv[1], field)
    return ('fv', sv, field)


def mem_struct_value(mem, K):
    if K in mem:
        return mem[K]
    if K[0] == 'f' and K[1][0] == '&':
        parent = mem_struct_value(mem, K[1][1])
        if parent is not None:
            return field_of_value(parent, K[2])
    return None


def mem_read(mem, key, default=None):
    """value of location key in a final memory map (struct-aware)"""
    if key in mem:
        return mem[key]
    if key[0] == 'f' and key[1][0] == '&':
        sv = mem_struct_value(mem, key[1][1])
        if sv is not None:
            return field_of_value(sv, key[2])
    return key if default is None else default


class Engine:
    """Enumerates paths of functions of a unit (with optional inlining of
    callees from this or other units)."""

    def __init__(self, unit, inline=None, other_units=(), sizeof=None, inline_depth=3,
                 prune=True, assume_asserts=False):
        self.u = unit
        self.units = [unit] + list(other_units)
        self.inline = set(inline or ())
        self.sizeof = sizeof or {}
        self.inline_depth = inline_depth
        self.prune = prune
        self.types = {}          # term -> qualType (for atoms)
        self.optype = {}         # arithmetic term -> C type of the operation
        self.npaths = 0
        self.record_loads = False
        self.pure = set()            # callees shown elsewhere not to modify their arguments' objects
        self.clobber_pre = {}        # havoc atom -> value the location had before the clobbering call
        self.call_clobbered = {}     # havoc atom -> local object a call may have written through its address
        self.clobber_origin = {}     # havoc atom -> location it stands for (value after a call that may have written it)
        self.restore_invariants = True
        self.index_pointer_walks = True
        self.definitions = {}        # result term of a call to a side-effect free, single-path accessor -> the value it computes
        self.auto_inline = True      # inline helpers that did not exist when the rules were written (known_functions.json)
        self.auto_inlined = set()

    def is_accessor(self, name):
        """a function with a body that only computes: no store through a pointer or into a global, no call, no loop"""
        c = self.__dict__.setdefault('_acc_cache', {})
        if name not in c:
            u, f = self.find_fn(name)
            ok = f is not None and u.body(name) is not None
            if ok:
                kinds = {cast.kind(x) for x in cast.walk(u.body(name))}
                ok = not (kinds & {'CallExpr', 'WhileStmt', 'ForStmt', 'DoStmt', 'GotoStmt', 'SwitchStmt'}) and self.is_pure(name)
            c[name] = ok
        return c[name]

    def expand(self, t, depth=3):
        """t with the results of accessor calls replaced by what they compute"""
        for _ in range(depth):
            m = {x: self.definitions[x] for x in subterms(t) if x in self.definitions}
            if not m:
                break
            t = substitute(t, m)
        return t

    def definition_facts(self, lins):
        """equalities result == value for the accessor calls whose results occur in the given linear forms"""
        out, seen, todo = [], set(), list(lins)
        for _ in range(3):
            nxt = []
            for l in todo:
                if not isinstance(l, Lin):
                    l = l[1] if isinstance(l, tuple) and len(l) == 2 and isinstance(l[1], Lin) else None
                if l is None:
                    continue
                for a in l.atoms():
                    if isinstance(a, tuple) and a in self.definitions and a not in seen:
                        seen.add(a)
                        try:
                            d = Lin.atom(a) - linearize(self.definitions[a])
                        except Exception:      # noqa: BLE001 - a value outside linear arithmetic gives no fact
                            continue
                        out += [d, -d]
                        nxt.append(d)
            todo = nxt
            if not todo:
                break
        return out

    def is_new_helper(self, name):
        """a function with a body in the analysed units that is not in the frozen table of functions the rules were
        written against: an extracted helper.  Its calls are no events any rule knows, so it is looked through."""
        if not self.auto_inline or name is None or name in KNOWN_FUNCTIONS():
            return False
        u, f = self.find_fn(name)
        return f is not None and u.body(name) is not None

    # -- lookup ------------------------------------------------------------
    def find_fn(self, name):
        for u in self.units:
            f = u.fn(name)
            if f is not None:
                return u, f
        return None, None

    # -- public ------------------------------------------------------------
    def paths(self, fname, bind=None, state=None):
        """All paths of function `fname`.  bind: {param name: term}."""
        u, f = self.find_fn(fname)
        if f is None:
            raise Unsupported('no body for %s' % fname)
        st = state or State()
        for p in u.params(fname):
            key = ('v', p['name'])
            self.types[key] = cast.qual_type(p)
            if bind and p['name'] in bind:
                st.mem[key] = bind[p['name']]
        out = []
        act = _Activation(self, u, fname, out, depth=0)
        act.run(u.body(fname), st)
        self.npaths += len(out)
        # a path that runs back to the head of an OUTER loop after having passed an inner one: the loop it belongs to (the
        # one whose iteration it is) is listed last, as for every other back edge - readers take loops[-1] for "the loop
        # this iteration is of"
        for p in out:
            if p.end == 'loopback' and p.loops and p.loops[-1][0] is not p.node and any(nd is p.node for nd, _ in p.loops):
                own = [x for x in p.loops if x[0] is p.node][-1]
                p.loops = [x for x in p.loops if x is not own] + [own]
        if self.restore_invariants:
            self._restore_invariants(out)
        if self.index_pointer_walks:
            self._index_pointer_walks(out)
        self._exact_exits(out)
        # a path whose conditions have become false by what the passes above established (a status that is invariantly
        # 0 tested `< 0`) is not a path of the function
        def dead(p):
            for c, _n in p.conds:
                if c[0] == 'cmp' and is_c(c[2]) and is_c(c[3]):
                    a, b = c[2][1], c[3][1]
                    if not {'<': a < b, '<=': a <= b, '==': a == b, '!=': a != b, '>': a > b, '>=': a >= b}.get(c[1], True):
                        return True
            return False
        if any(dead(p) for p in out):
            out[:] = [p for p in out if not dead(p)]
        return out

    def _restore_invariants(self, out):
        """A location is havocked at a loop head because some statement of the body assigns it.  If no path that runs
        back to the head leaves it changed (every assignment is followed by an exit: `rv.code = E; goto out;`, a status
        set just before `break`), it holds its pre-loop value at every visit of the head, by induction - the havoc value
        is replaced by that value in all paths.  Decided per havoc value, iterated for nested loops."""
        for _ in range(4):
            info = {}
            for p in out:
                for node, lmap in p.loops:
                    for k, (h, pre) in lmap.items():
                        if pre is not None and h[0] == 'h' and not contains(pre, h) and h != pre:
                            info.setdefault(h, [k, pre, True])
            if not info:
                return
            for p in out:
                if p.end == 'loopback' and p.loops:
                    for k, (h, pre) in p.loops[-1][1].items():
                        if h in info:
                            v = mem_read(p.mem, k, h)
                            while isinstance(v, tuple) and v[0] == 'cast':
                                v = v[2]
                            # unchanged, or set to the very constant it had before the loop (`rv.code = SUCCESS` on a
                            # path of a walk that starts with rv.code == SUCCESS): by induction it is that constant
                            if v != h and not (is_c(v) and v == info[h][1]):
                                info[h][2] = False
            sub = {h: pre for h, (k, pre, ok) in info.items() if ok}
            if not sub:
                return
            for _c in range(8):             # close the map: a pre-loop value may be the (invariant) variable of an earlier loop
                nxt = {h: substitute(v, sub) for h, v in sub.items()}
                if nxt == sub:
                    break
                sub = nxt
            self._subst_paths(out, sub)

    def _subst_paths(self, out, sub, post=None):
        """replace havoc values by terms in everything the paths carry (memory, conditions, effects, results, loop maps) and
        in the engine's side tables; post: a rewrite applied to every term the substitution changed"""
        hs = set(sub)

        def S(t):
            if isinstance(t, tuple) and any(x in hs for x in subterms(t)):
                t = substitute(t, sub)
                return post(t) if post else t
            return t
        done = set()
        for p in out:
            if id(p.mem) not in done:
                done.add(id(p.mem))
                new = {S(k): S(v) for k, v in p.mem.items()}
                p.mem.clear()
                p.mem.update(new)
            if id(p.conds) not in done:
                done.add(id(p.conds))
                p.conds[:] = [(S(c), n) for c, n in p.conds]
            for e in p.effects:
                if id(e) in done:
                    continue
                done.add(id(e))
                e.args = tuple(S(a) for a in e.args)
                if isinstance(e.result, tuple):
                    e.result = S(e.result)
                if isinstance(e.name, tuple):
                    e.name = S(e.name)
                if isinstance(e.extra, tuple):
                    e.extra = S(e.extra)
            if isinstance(p.ret, tuple):
                p.ret = S(p.ret)
            for node, lmap in p.loops:
                if id(lmap) in done:
                    continue
                done.add(id(lmap))
                for k in list(lmap):
                    h, pre = lmap[k]
                    if h in hs:
                        lmap[k] = (sub[h], S(pre) if isinstance(pre, tuple) else pre)          # the variable is this term throughout
                    elif isinstance(pre, tuple):
                        lmap[k] = (h, S(pre))
        for d in (self.types, self.optype, self.clobber_pre, self.clobber_origin):
            for k in list(d):
                if isinstance(k, tuple) and any(x in hs for x in subterms(k)):
                    d.setdefault(S(k), d[k] if not isinstance(d[k], tuple) else S(d[k]))

    def _exact_exits(self, out):
        """A counter that starts at 0 (or a constant not above the bound), is advanced by exactly one on every back edge
        and is tested `counter < B` with B untouched by the loop leaves the loop through that test with counter == B -
        not merely counter >= B.  The equality is added to the exit paths (the havoc of the loop head knows nothing of
        where the counter came from; this is the inductive fact counter <= B that it forgets)."""
        steps = {}
        dead = set()
        for p in out:
            if p.end != 'loopback' or not p.loops:
                continue
            node, lmap = p.loops[-1]
            if node is not p.node:
                continue
            for k, (h, pre) in lmap.items():
                if not (isinstance(h, tuple) and h[0] == 'h'):
                    continue
                v = mem_read(p.mem, k, h)
                while isinstance(v, tuple) and v[0] == 'cast':
                    v = v[2]
                ok = v == ('+', h, C(1)) or v == ('+', C(1), h)
                steps[h] = steps.get(h, True) and ok
        for p in out:
            for node, lmap in p.loops:
                hs_all = {h for (h, pre) in lmap.values() if isinstance(h, tuple)}
                for k, (h, pre) in lmap.items():
                    if not steps.get(h) or pre is None:
                        continue
                    pre0 = pre
                    while isinstance(pre0, tuple) and pre0[0] == 'cast':
                        pre0 = pre0[2]
                    if not is_c(pre0) or pre0[1] < 0:
                        continue
                    for c, n_ in list(p.conds):
                        if c[0] == 'cmp' and c[1] == '<=' and c[3] == h and not any(x in hs_all for x in subterms(c[2])):
                            B = c[2]
                            qt = (self.types.get(B) or '').replace('const ', '')
                            unsigned_b = qt.startswith(('unsigned', 'uint', 'size_t', 'AreaHandle', 'RegisterHandle', 'RegisterOffset', 'RegisterAddress')) or (is_c(B) and B[1] >= pre0[1])
                            if not (pre0[1] == 0 and unsigned_b) and not (is_c(B) and B[1] >= pre0[1]):
                                continue
                            eq = ('cmp', '==', h, B)
                            if not any(cc == eq for cc, _ in p.conds):
                                p.conds.append((eq, n_))
                            # a path that went on under counter != B (or a strict order) after this exit does not exist
                            if any(cc[0] == 'cmp' and cc[1] in ('!=', '<') and {cc[2], cc[3]} == {h, B} for cc, _ in p.conds):
                                dead.add(id(p))
        if dead:
            out[:] = [p for p in out if id(p) not in dead]

    def _index_pointer_walks(self, out):
        """A loop variable of pointer type that starts at a known position and that EVERY iteration moves by exactly one
        element (`for (T *a = base; a < base + n; ++a)`) is base +- K at the loop head, K being the number of iterations
        completed - by induction.  The havoc value of the pointer is replaced by that term and K is entered into the loop
        map as a counter of its own (start 0, step +1), so a walk by pointer reads like the walk by index it is."""
        info = {}
        for p in out:
            for node, lmap in p.loops:
                for k, (h, pre) in lmap.items():
                    if pre is None or not isinstance(h, tuple) or h[0] != 'h' or contains(pre, h) or h == pre:
                        continue
                    qt = self.types.get(k) or self.types.get(h) or ''
                    if not qt.rstrip().endswith('*') and '*const' not in qt.replace(' ', ''):
                        continue
                    info.setdefault(h, {'k': k, 'pre': pre, 'step': None, 'ok': True, 'node': node, 'n': 0})
        if not info:
            return
        for p in out:
            if p.end != 'loopback' or not p.loops:
                continue
            for node, lmap in p.loops:
                if node is not p.node:
                    continue
                for k, (h, pre) in lmap.items():
                    i = info.get(h)
                    if i is None:
                        continue
                    v = mem_read(p.mem, k, h)
                    while isinstance(v, tuple) and v[0] == 'cast':
                        v = v[2]
                    try:
                        d = linearize(v) - linearize(h)
                    except Exception:          # noqa: BLE001
                        i['ok'] = False
                        continue
                    if not d.is_const() or d.c not in (1, -1) or i['step'] not in (None, d.c):
                        i['ok'] = False
                    else:
                        i['step'] = d.c
                        i['n'] += 1
        # a loop-carried pointer of an outer loop that an inner loop's back edge passes by unchanged is not judged there
        sub, Ks, start = {}, {}, {}
        for h, i in info.items():
            if not i['ok'] or i['step'] is None:
                continue
            pre = i['pre']
            while isinstance(pre, tuple) and pre[0] == 'cast' and '*' in pre[1]:
                pre = pre[2]
            if pre[0] == '+' and len(pre) == 3 and '*' in (self.types.get(pre[1]) or ('*' if pre[1][0] in ('f', 'v', '&') else '')):
                base, s0 = pre[1], pre[2]
            else:
                base, s0 = pre, C(0)
            K = fresh('%s#index' % h[1])
            self.types[K] = 'unsigned long'
            Ks[h] = (K, i['step'])
            start[h] = s0
            sub[h] = add(base, K)
        if not sub:
            return
        for _c in range(8):
            nxt = {h: substitute(v, sub) for h, v in sub.items()}
            if nxt == sub:
                break
            sub = nxt
        # the position as a loop variable of its own: starts at the walk's start index, moves by the pointer's step
        seen = set()
        for p in out:
            for node, lmap in p.loops:
                for k, (h, pre) in list(lmap.items()):
                    if h in Ks:
                        K, step = Ks[h]
                        kidx = ('v', '#index(%s)' % fmt(k))
                        self.types[kidx] = 'unsigned long'
                        if id(lmap) not in seen:
                            lmap[kidx] = (K, substitute(start[h], sub))
                        if p.end == 'loopback' and node is p.node:
                            p.mem[kidx] = add(K, C(step))
                seen.add(id(lmap))
        idxs = {K for K, _ in Ks.values()}

        def split(t):
            while isinstance(t, tuple) and t[0] == 'cast' and '*' in t[1]:
                t = t[2]
            if isinstance(t, tuple) and t[0] == '+' and len(t) == 3:
                b, x = split(t[1])
                return b, add(x, t[2])
            return t, C(0)

        def post(t):
            """comparisons and differences of two positions in the same array are comparisons / differences of indices"""
            if not isinstance(t, tuple) or not any(x in idxs for x in subterms(t)):
                return t
            t = tuple(post(x) if isinstance(x, tuple) else x for x in t)
            if t[0] == 'cmp' and isinstance(t[2], tuple) and isinstance(t[3], tuple):
                (b1, x1), (b2, x2) = split(t[2]), split(t[3])
                if b1 == b2 and (x1 != C(0) or x2 != C(0)) and (any(x in idxs for x in subterms(x1)) or any(x in idxs for x in subterms(x2))):
                    return ('cmp', t[1], x1, x2)
            if t[0] == '-' and len(t) == 3 and isinstance(t[1], tuple) and isinstance(t[2], tuple):
                (b1, x1), (b2, x2) = split(t[1]), split(t[2])
                if b1 == b2 and b1 != C(0) and any(x in idxs for x in subterms(t[1])):
                    return sub_(x1, x2)
            if t[0] == '+' and len(t) == 3 and isinstance(t[1], tuple) and t[1][0] == '+' and len(t[1]) == 3 and t[1][2] in idxs and is_c(t[2]):
                return t          # position + constant stays as it is (linear forms read it)
            return t
        self._subst_paths(out, sub, post)

    def is_pure(self, name, _stack=()):
        """syntactic purity: the function (and everything it calls) never stores through
        a pointer / into a global and makes no indirect call"""
        c = self.__dict__.setdefault('_pure_cache', {})
        if name in c:
            return c[name]
        if name in self.pure or name in PURE_FUNCTIONS:
            return True
        if name in _stack:
            return True
        u, f = self.find_fn(name)
        if f is None:
            c[name] = False
            return False
        gids = getattr(u, '_global_ids', None)
        if gids is None:
            gids = u._global_ids = {g['id'] for g in u.globals.values()}
        res = True
        for x in cast.walk(f):
            kd = cast.kind(x)
            tgt = None
            if kd == 'BinaryOperator' and x.get('opcode') == '=':
                tgt = x['inner'][0]
            elif kd == 'CompoundAssignOperator':
                tgt = x['inner'][0]
            elif kd == 'UnaryOperator' and x.get('opcode') in ('++', '--'):
                tgt = x['inner'][0]
            elif kd == 'CallExpr':
                cn = cast.callee_name(x)
                if cn is None or not self.is_pure(cn, _stack + (name,)):
                    res = False
                    break
            if tgt is not None:
                t0 = cast.strip_all_casts(tgt)
                # only plain local variables / fields of local structs may be assigned
                while cast.kind(t0) == 'MemberExpr' and not t0.get('isArrow'):
                    t0 = cast.strip_all_casts(t0['inner'][0])
                if not (cast.kind(t0) == 'DeclRefExpr' and t0['referencedDecl'].get('kind') in ('VarDecl', 'ParmVarDecl')
                        and t0['referencedDecl']['id'] not in gids):
                    res = False
                    break
        c[name] = res
        return res

    def param_written(self, name, idx, _stack=()):
        """may function `name` store through its idx-th (pointer) parameter?  Syntactic
        and transitive over direct calls; anything unknown counts as a write."""
        c = self.__dict__.setdefault('_pw_cache', {})
        key = (name, idx)
        if key in c:
            return c[key]
        if (name, idx) in _stack:
            return False
        if name in PURE_FUNCTIONS or name in self.pure:
            return False
        u, f = self.find_fn(name)
        if f is None:
            return True
        params = u.params(name)
        if idx >= len(params):
            return True
        roots = {params[idx]['id']}
        res = False
        # aliases: locals initialised from the parameter (possibly cast / offset / &p->field)
        changed = True
        def rooted(n):
            n = cast.strip_all_casts(n)
            while True:
                k = cast.kind(n)
                if k == 'DeclRefExpr':
                    return n['referencedDecl'].get('id') in roots
                if k in ('MemberExpr', 'ArraySubscriptExpr'):
                    n = cast.strip_all_casts(n['inner'][0])
                elif k == 'UnaryOperator' and n.get('opcode') in ('*', '&'):
                    n = cast.strip_all_casts(n['inner'][0])
                elif k == 'BinaryOperator' and n.get('opcode') in ('+', '-'):
                    n = cast.strip_all_casts(n['inner'][0])
                else:
                    return False
        while changed:
            changed = False
            for x in cast.walk(f):
                if cast.kind(x) == 'VarDecl' and x.get('inner') and x['id'] not in roots and '*' in cast.qual_type(x):
                    if rooted(x['inner'][0]):
                        roots.add(x['id'])
                        changed = True
        for x in cast.walk(f):
            kd = cast.kind(x)
            tgt = None
            if kd == 'BinaryOperator' and x.get('opcode') == '=':
                tgt = x['inner'][0]
            elif kd == 'CompoundAssignOperator':
                tgt = x['inner'][0]
            elif kd == 'UnaryOperator' and x.get('opcode') in ('++', '--'):
                tgt = x['inner'][0]
            if tgt is not None:
                t0 = cast.strip_all_casts(tgt)
                if cast.kind(t0) != 'DeclRefExpr' and rooted(t0):
                    res = True
                    break
            if kd == 'CallExpr':
                cn = cast.callee_name(x)
                for j, a in enumerate(x['inner'][1:]):
                    if rooted(a) and ('*' in cast.qual_type(a) or '[' in cast.qual_type(a)):
                        if cn is None or self.param_written(cn, j, _stack + ((name, idx),)):
                            # const-qualified pointee in the callee's prototype cannot be written
                            if cn is not None:
                                d = None
                                for uu in self.units:
                                    d = uu.fn_decls.get(cn)
                                    if d is not None:
                                        break
                                if d is not None:
                                    ps_ = [q for q in cast.inner(d) if cast.kind(q) == 'ParmVarDecl']
                                    if j < len(ps_):
                                        pt = cast.qual_type(ps_[j])
                                        if '*' in pt and 'const' in pt.rsplit('*', 1)[0].split('*')[-1]:
                                            continue
                            res = True
                            break
                if res:
                    break
        c[key] = res
        return res

    # -- background facts ------------------------------------------------------
    def unsigned(self, t):
        qt = self.types.get(t)
        if qt is None and t[0] in ('f', 'i'):
            qt = self.types.get(t)
        if not qt:
            return False
        q = qt.replace('const ', '').strip()
        return q.startswith('unsigned') or q in ('size_t', '_Bool') or '*' in q

    def nonneg_facts(self, lins):
        atoms = set()
        for l in lins:
            atoms |= l.atoms()
        out = []
        for a in atoms:
            if isinstance(a, tuple) and self.unsigned(a):
                out.append(-Lin.atom(a))
        return out

    def _nonneg_lin(self, x):
        """a linear form that cannot be negative: non-negative coefficients over unsigned atoms"""
        return x.c >= 0 and all(v >= 0 and isinstance(a, tuple) and self.unsigned(a) for a, v in x.t.items())

    def path_facts(self, path):
        """linear facts of a path; disequalities are kept as ('ne', Lin) and are
        strengthened to strict inequalities inside entails()/feasible() when the
        other facts fix their sign"""
        out = []
        conds = path.cond_terms() if isinstance(path, Path) else list(path)
        for c in conds:
            out += cond_to_lin(c)
            if c[0] == 'cmp' and c[1] == '!=':
                out.append(('ne', linearize(c[2]) - linearize(c[3])))
        return out

    def strict_facts(self, path, about=None):
        """path_facts, but a narrowing integer conversion in a path condition is value preserving only where that is
        proved: `(T)x` (about `about` terms, if given) becomes an opaque value w with min(T) <= w <= max(T); w == x is added
        once the facts gathered so far entail that x fits T (iterated to a fixpoint).  Sound where path_facts is
        deliberately optimistic about wrap-around."""
        conds = path.cond_terms() if isinstance(path, Path) else list(path)
        m = {}
        for c in conds:
            for t in subterms(c):
                if t[0] == 'cast' and t[1] in self.INT_MAX_OF and not is_c(t[2]) and \
                        (about is None or any(contains(t[2], a) for a in about)):
                    m[t] = ('wrap', t[1], t[2])
        if not m:
            return self.path_facts(conds)
        # innermost first, so that nested conversions are replaced consistently
        conds = [substitute(c, m) for c in conds]
        facts = self.path_facts(conds)
        todo = {}
        for t, w in m.items():
            w = substitute(w, {k: v for k, v in m.items() if k != t})
            mx = self.INT_MAX_OF[t[1]]
            lo = 0 if t[1].startswith('unsigned') else -mx - 1
            facts.append(Lin.atom(w) - mx)
            facts.append(Lin.const(lo) - Lin.atom(w))
            todo[w] = (linearize(w[2]), lo, mx)
        changed = True
        while changed and todo:
            changed = False
            for w, (x, lo, mx) in list(todo.items()):
                if self.entails(facts, x - mx) and self.entails(facts, Lin.const(lo) - x):
                    facts.append(Lin.atom(w) - x)
                    facts.append(x - Lin.atom(w))
                    del todo[w]
                    changed = True
        return facts

    def _strengthen(self, facts):
        """split [Lin | ('ne', Lin)] and turn disequalities into strict bounds"""
        lins = [f for f in facts if isinstance(f, Lin)]
        nes = [f[1] for f in facts if not isinstance(f, Lin)]
        lins = lins + self.nonneg_facts(lins + nes)
        lins += division_axioms(lins + nes, self._nonneg_lin)
        for _ in range(2):
            rest = []
            for d in nes:
                if lin.entails(lins, -d):          # d >= 0  ->  d >= 1
                    lins.append(Lin.const(1) - d)
                elif lin.entails(lins, d):         # d <= 0  ->  d <= -1
                    lins.append(d + 1)
                else:
                    rest.append(d)
            if len(rest) == len(nes):
                break
            nes = rest
        return lins

    def pointer(self, t):
        qt = self.types.get(t)
        return bool(qt) and ('*' in qt)

    def entails(self, path_or_facts, goal, extra=()):
        facts = self.path_facts(path_or_facts) if isinstance(path_or_facts, Path) else list(path_or_facts)
        facts = facts + list(extra)
        if self.definitions:
            facts = facts + self.definition_facts(facts + [goal])
        lins = self._strengthen(facts + [('ne', goal)] if False else facts)
        lins += self.nonneg_facts([goal])
        lins += division_axioms([goal])
        return lin.entails(lins, goal)

    INT_BITS_ALL = {'unsigned char': 8, 'signed char': 8, 'char': 8, '_Bool': 8, 'bool': 8, 'unsigned short': 16, 'short': 16,
                    'unsigned int': 32, 'int': 32, 'unsigned long': 64, 'long': 64, 'unsigned long long': 64, 'long long': 64,
                    'uint8_t': 8, 'uint16_t': 16, 'uint32_t': 32, 'uint64_t': 64, 'size_t': 64, 'uint_least8_t': 8, 'ssize_t': 64}

    INT_MAX_OF = {'unsigned char': 255, 'unsigned short': 65535, 'unsigned int': (1 << 32) - 1, 'int': (1 << 31) - 1,
                  'short': 32767, 'signed char': 127, 'char': 127}

    def narrow_wraps(self, terms, facts, maximal=False, wide_diffs=False):
        """arithmetic subterms of `terms` that are carried out in a type narrower than 64 bits and are not proved to
        stay within that type under `facts` plus the value ranges of their narrow atoms -> [(term, type, why)].
        With `maximal`, only the outermost sum/difference of each unsigned chain is examined: unsigned arithmetic is
        arithmetic modulo 2^w, so an intermediate result may wrap as long as the value finally used is the mathematical one
        (`addr + n - 1` with addr + n == 2^w)."""
        out = []
        seen = set()
        inner = set()
        if maximal:
            for t0 in terms:
                for t in subterms(t0):
                    if t in self.optype and t[0] in ('+', '-') and self.optype[t].replace('const ', '').strip().startswith('unsigned'):
                        for ch in t[1:]:
                            if isinstance(ch, tuple) and ch in self.optype and self.optype[ch] == self.optype[t]:
                                inner.add(ch)
        for t0 in terms:
            for t in subterms(t0):
                if t in seen or t not in self.optype or t in inner:
                    continue
                seen.add(t)
                qt = self.optype[t].replace('const ', '').strip()
                mx = self.INT_MAX_OF.get(qt)
                if mx is None:
                    # 64-bit unsigned arithmetic: no upper bound to speak of, but a difference still wraps below zero
                    if wide_diffs and t[0] == '-' and qt in ('unsigned long', 'unsigned long long'):
                        if not self.entails(list(facts), linearize(t[2]) - linearize(t[1])):
                            out.append((t, qt, 'may go below 0'))
                    continue
                rng = []
                for a in linearize(t).atoms():
                    aq = (self.types.get(a) or '').replace('const ', '').strip()
                    if a[0] == 'cast':
                        aq = a[1]
                    am = self.INT_MAX_OF.get(aq)
                    if am is None and a[0] in ('f', 'fv') and isinstance(a[2], str):
                        am = None
                    if am is not None:
                        rng.append(linearize(a) - am)
                        if aq.startswith('unsigned'):
                            rng.append(-linearize(a))
                if not self.entails(list(facts) + rng, linearize(t) - mx):
                    out.append((t, qt, 'may exceed %d' % mx))
                elif t[0] == '-' and qt.startswith('unsigned') and not self.entails(list(facts) + rng, linearize(t[2]) - linearize(t[1])):
                    out.append((t, qt, 'may go below 0'))
        return out

    def narrowing_stores(self, paths):
        """stores whose value is cut down to the width of the object it is stored in:
           - a parameter, field, call result or loaded value narrower stored as it is (no arithmetic), or
           - an arithmetic value stored into something narrower than its widest operand below 64 bits
             (operands of size_t width are not counted: wrap at the top of the address space is not decided here).
        Masked / shifted values that provably fit have lost their cast already (int_cast).  -> [(effect, to_type, why)]"""
        out = []
        seen = set()

        def bits(qt):
            qt = (qt or '').replace('const ', '').replace('volatile ', '').strip()
            return self.INT_BITS_ALL.get(qt)

        def atom_bits(a):
            if a[0] == 'cast':
                return bits(a[1])
            return bits(self.types.get(a))
        for p in paths:
            for e in p.stores():
                v = e.args[0] if e.args else None
                if v is None or v[0] != 'cast' or '*' in v[1] or is_c(v[2]):
                    continue
                tb = bits(v[1])
                if tb is None:
                    continue
                x = v[2]
                key = (repr(e.name), v[1], repr(x))
                if key in seen:
                    continue
                seen.add(key)
                if x[0] in ('v', 'f', 'fv', 'call', 'i', 'h'):
                    xb = atom_bits(x)
                    if xb is not None and xb > tb:
                        out.append((e, v[1], '%s (%d bits) is stored in a %d-bit object' % (fmt(x), xb, tb)))
                    continue
                ab = [atom_bits(a) for a in linearize(x).atoms()]
                ab = [b for b in ab if b is not None and b < 64]
                if ab and max(ab) > tb:
                    out.append((e, v[1], '%s has a %d-bit operand and is stored in a %d-bit object' % (fmt(x), max(ab), tb)))
        return out

    def feasible(self, conds, extra=()):
        facts = self.path_facts(conds) + list(extra)
        if not facts:
            return True
        if self.definitions:
            facts = facts + self.definition_facts(facts)
        lins = self._strengthen(facts)
        r = lin.infeasible(lins)
        return not r


def exit_only_nodes(root):
    """ids of all nodes inside straight-line statements that are directly followed
    (in the same compound statement) by a return: their effects never reach the
    next loop iteration"""
    out = set()
    for x in cast.walk(root):
        if cast.kind(x) != 'CompoundStmt':
            continue
        stmts = cast.inner(x)
        if not stmts or cast.kind(stmts[-1]) != 'ReturnStmt':
            continue
        # walk backwards over simple expression statements
        i = len(stmts) - 2
        while i >= 0:
            sk = cast.kind(stmts[i])
            if sk in ('BinaryOperator', 'CompoundAssignOperator', 'UnaryOperator', 'ParenExpr', 'CallExpr', 'CStyleCastExpr', 'ImplicitCastExpr'):
                for y in cast.walk(stmts[i]):
                    out.add(id(y))
                i -= 1
            else:
                break
    return out


def division_axioms(lins, nonneg=None):
    """for atoms x/c and x%c (c>0 const, x unsigned-ish) add  c*(x/c) <= x,
    x <= c*(x/c) + c-1;  x & (2^k - 1) is x % 2^k for x that cannot be negative (`nonneg` decides)"""
    out = []
    atoms = set()
    for l in lins:
        atoms |= l.atoms()
    for a in atoms:
        if isinstance(a, tuple) and a[0] == '&b' and len(a) == 3:
            x, m = (a[1], a[2]) if is_c(a[2]) else (a[2], a[1])
            if is_c(m) and is_c(x):
                r = Lin.atom(a) - (m[1] & x[1])
                out += [r, -r]
            elif is_c(m) and m[1] > 0 and (m[1] & (m[1] + 1)) == 0:
                r = Lin.atom(a)
                c = m[1] + 1
                out.append(-r)
                out.append(r - m[1])
                xl = linearize(x)
                if nonneg is not None and nonneg(xl):
                    if all((v / c).denominator == 1 for v in list(xl.t.values()) + [xl.c]):
                        out.append(r)
                    q = ('/', x, C(c))
                    if q in atoms:
                        e = xl - Lin.atom(q).scale(c) - r
                        out += [e, -e]
                    md = ('%', x, C(c))
                    if md in atoms:
                        out += [r - Lin.atom(md), Lin.atom(md) - r]
        if isinstance(a, tuple) and a[0] == '%':
            # 0 <= x % m <= m - 1   (m >= 1 is the caller's obligation; m == 0 is undefined behaviour anyway)
            r = Lin.atom(a)
            out.append(-r)
            out.append(r - linearize(a[2]) + 1)
            if is_c(a[2]) and a[2][1] > 0:
                x = linearize(a[1])
                c = a[2][1]
                if all((v / c).denominator == 1 for v in list(x.t.values()) + [x.c]):
                    out.append(r)                      # every coefficient is a multiple of c:  x % c == 0
        if isinstance(a, tuple) and a[0] == '/' and is_c(a[2]) and a[2][1] > 0:
            c = a[2][1]
            x = linearize(a[1])
            q = Lin.atom(a)
            out.append(q.scale(c) - x)                 # c*q <= x
            out.append(x - q.scale(c) - (c - 1))       # x <= c*q + c-1
            if all((v / c).denominator == 1 for v in list(x.t.values()) + [x.c]):
                out.append(x - q.scale(c))             # every coefficient is a multiple of c:  x == c*(x/c)
            m = ('%', a[1], a[2])
            if m in atoms:                             # x == c*(x/c) + x%c  (C99 6.5.5p6, any sign)
                e = x - q.scale(c) - Lin.atom(m)
                out += [e, -e]
    return out


class _Ctx:
    __slots__ = ('brk', 'cont', 'ret')

    def __init__(self, brk=None, cont=None, ret=None):
        self.brk, self.cont, self.ret = brk, cont, ret


class _Activation:
    def __init__(self, eng, unit, fname, out, depth, prefix=''):
        self.e = eng
        self.u = unit
        self.fname = fname
        self.out = out
        self.depth = depth
        self.prefix = prefix          # variable name prefix for inlined frames
        self.labels = {}              # label name -> (stmts, idx, ctx, k)
        self.names = {}               # decl id -> unique variable name
        self.stack = (fname,)         # functions being expanded (recursion guard for looked-through helpers)

    # ------------------------------------------------------------------
    def emit(self, st, end, ret=None, node=None):
        if len(self.out) >= MAX_PATHS:
            raise PathLimit('%s: more than %d paths' % (self.fname, MAX_PATHS))
        self.out.append(Path(st, end, ret, node))

    def run(self, body, st):
        ctx = _Ctx(ret=lambda s, v, n: self.emit(s, 'return', v, n))
        self.exec_stmt(body, st, ctx, lambda s: self.emit(s, 'end'))

    def varname(self, decl):
        did = decl.get('id')
        if did in self.names:
            return self.names[did]
        nm = self.prefix + decl.get('name', '?')
        if nm in self.names.values():
            nm = '%s~%d' % (nm, len(self.names))
        self.names[did] = nm
        return nm

    # -- statements ------------------------------------------------------
    def exec_seq(self, stmts, i, st, ctx, k):
        if i >= len(stmts):
            return k(st)
        self.exec_stmt(stmts[i], st, ctx, lambda s: self.exec_seq(stmts, i + 1, s, ctx, k))

    def exec_stmt(self, n, st, ctx, k):
        kd = cast.kind(n)
        if kd is None or kd == 'NullStmt':
            return k(st)
        if kd == 'CompoundStmt':
            stmts = cast.inner(n)
            for i, s in enumerate(stmts):
                if cast.kind(s) == 'LabelStmt':
                    self.labels[s['name']] = (stmts, i, ctx, k, cast.node_line(s))
            return self.exec_seq(stmts, 0, st, ctx, k)
        if kd == 'LabelStmt':
            return self.exec_stmt(n['inner'][0], st, ctx, k)
        if kd == 'DeclStmt':
            decls = [d for d in cast.inner(n) if cast.kind(d) == 'VarDecl']
            return self.exec_decls(decls, 0, st, ctx, k)
        if kd == 'ReturnStmt':
            inn = cast.inner(n)
            if not inn:
                return ctx.ret(st, None, n)
            for s, v in self.eval(inn[0], st):
                ctx.ret(s, v, n)
            return
        if kd == 'IfStmt':
            inn = n['inner']
            # clang: [cond, then, else?]; with init/var stmts absent in C
            cond, then = inn[0], inn[1]
            els = inn[2] if len(inn) > 2 else None
            for s, tv in self.branch(cond, st):
                if tv:
                    self.exec_stmt(then, s, ctx, k)
                elif els is not None:
                    self.exec_stmt(els, s, ctx, k)
                else:
                    k(s)
            return
        if kd in ('WhileStmt', 'ForStmt', 'DoStmt'):
            return self.exec_loop(n, st, ctx, k)
        if kd == 'SwitchStmt':
            return self.exec_switch(n, st, ctx, k)
        if kd == 'BreakStmt':
            return ctx.brk(st)
        if kd == 'ContinueStmt':
            return ctx.cont(st)
        if kd == 'GotoStmt':
            tgt = self.u.by_id.get(n.get('targetLabelDeclId'))
            name = tgt.get('name') if tgt else None
            if name is None:
                # LabelDecl not indexed: search label by id in function
                name = self._label_name(n.get('targetLabelDeclId'))
            lab = self.labels.get(name)
            if lab is None:
                raise Unsupported('goto to unknown label')
            stmts, i, lctx, lk, lline = lab
            if lline is not None and cast.node_line(n) is not None and lline < cast.node_line(n):
                return self.emit(st, 'loopback', None, n)     # backward goto = back edge
            return self.exec_seq(stmts, i, st, lctx, lk)
        if kd in ('CaseStmt', 'DefaultStmt'):
            # reached by fall-through inside a switch body
            sub = n['inner'][-1]
            return self.exec_stmt(sub, st, ctx, k)
        if kd == 'AttributedStmt':
            return self.exec_stmt(n['inner'][-1], st, ctx, k)
        # expression statement
        for s, _ in self.eval(n, st):
            k(s)

    def _label_name(self, did):
        f = self.u.fn(self.fname)
        for x in cast.walk(f):
            if cast.kind(x) == 'LabelStmt' and x.get('declId') == did:
                return x.get('name')
        return None

    def exec_decls(self, decls, i, st, ctx, k):
        if i >= len(decls):
            return k(st)
        d = decls[i]
        name = self.varname(d)
        key = ('v', name)
        self.e.types[key] = cast.qual_type(d)
        init = [c for c in cast.inner(d) if not (cast.kind(c) or '').endswith('Attr')]
        if init and d.get('storageClass') == 'static':
            qt_ = cast.qual_type(d).strip()
            base_ = qt_[:qt_.index('[')].strip() if '[' in qt_ else qt_
            if not (base_.startswith('const ') or base_.endswith(' const') or base_.endswith('*const')):
                # the initialiser of a mutable static local runs once, before the first call: at this point the object holds
                # whatever earlier calls left in it
                init = []
        if not init:
            st = st.copy()
            self.clear_var(st, key)
            return self.exec_decls(decls, i + 1, st, ctx, k)
        for s, v in self.eval_init(init[0], st, key, d):
            s = s.copy()
            if v is not None:
                self.assign(s, key, v, d, record=False)
            self.exec_decls(decls, i + 1, s, ctx, k)

    def clear_var(self, st, key):
        for kk in [kk for kk in st.mem if rooted_at(kk, ('&', key)) or kk == key]:
            del st.mem[kk]

    def eval_init(self, n, st, key, decl):
        n0 = cast.strip(n)
        if cast.kind(n0) == 'InitListExpr':
            return self.eval_initlist(n0, st, key)
        if cast.kind(n0) == 'CompoundLiteralExpr':
            il = cast.strip(n0['inner'][0])
            if cast.kind(il) == 'InitListExpr':
                return self.eval_initlist(il, st, key)
        return self.eval(n, st)

    def eval_initlist(self, il, st, key):
        """struct/array initialiser: assign fields individually"""
        qt = cast.qual_type(il)
        rec = self.record_fields(qt)
        res = [(st.copy(), None)]
        self.clear_var(res[0][0], key)
        elems = cast.inner(il)
        if il.get('field'):          # union
            fld = il['field']['name']
            out = []
            for s, _ in res:
                for s2, v in self.eval_init(elems[0], s, ('f', ('&', key), fld), None):
                    s2 = s2.copy()
                    if v is not None:
                        s2.mem[('f', ('&', key), fld)] = v
                    out.append((s2, None))
            return out
        if rec is None:
            # array or scalar in braces
            if '[' in qt:
                for idx, e in enumerate(elems):
                    out = []
                    for s, _ in res:
                        if cast.kind(e) == 'ImplicitValueInitExpr':
                            s.mem[('i', ('&', key), C(idx))] = C(0)
                            out.append((s, None))
                            continue
                        for s2, v in self.eval(e, s):
                            s2 = s2.copy()
                            s2.mem[('i', ('&', key), C(idx))] = v
                            out.append((s2, None))
                    res = out
                return res
            if len(elems) == 1:
                return self.eval(elems[0], st)
            raise Unsupported('initialiser list for %s' % qt)
        for (fname, fqt), e in zip(rec, elems):
            out = []
            fkey = ('f', ('&', key), fname)
            for s, _ in res:
                if cast.kind(e) == 'ImplicitValueInitExpr':
                    s.mem[fkey] = C(0)
                    out.append((s, None))
                    continue
                e0 = cast.strip(e)
                if cast.kind(e0) == 'InitListExpr':
                    for s2, _v in self.eval_initlist(e0, s, fkey):
                        out.append((s2, None))
                    continue
                for s2, v in self.eval(e, s):
                    s2 = s2.copy()
                    self.assign(s2, fkey, v, e, record=False)
                    out.append((s2, None))
            res = out
        return res

    def record_fields(self, qt):
        c = self.e.__dict__.setdefault('_rf_cache', {})
        if qt not in c:
            c[qt] = self._record_fields(qt)
        return c[qt]

    def _record_fields(self, qt):
        qt = qt.replace('const ', '').strip()
        name = None
        if qt.startswith('struct ') or qt.startswith('union '):
            name = qt.split(' ', 1)[1]
        else:
            td = None
            for u in self.e.units:
                if qt in u.typedefs:
                    td = u.typedefs[qt]
                    break
            if td:
                d = td.get('desugaredQualType') or td.get('qualType') or ''
                if d.startswith('struct ') or d.startswith('union '):
                    name = d.split(' ', 1)[1]
                else:
                    # typedef struct {...} Name;  (the record itself has no name)
                    for u in self.e.units:
                        rid = getattr(u, 'typedef_record', {}).get(qt)
                        r = u.record_by_id.get(rid) if rid else None
                        if r:
                            return [(f['name'], cast.qual_type(f)) for f in cast.inner(r)
                                    if cast.kind(f) == 'FieldDecl' and 'name' in f]
        if name is None:
            return None
        for u in self.e.units:
            r = u.records.get(name)
            if r:
                return [(f['name'], cast.qual_type(f)) for f in cast.inner(r)
                        if cast.kind(f) == 'FieldDecl' and 'name' in f]
        return None

    # -- loops -------------------------------------------------------------
    def assigned_keys(self, nodes, st):
        """syntactic over-approximation of locations written in loop"""
        keys = []
        clobber = []
        for root in nodes:
            if root is None:
                continue
            skip = exit_only_nodes(root)
            for x in cast.walk(root):
                if id(x) in skip:
                    continue
                kd = cast.kind(x)
                tgt = None
                if kd == 'BinaryOperator' and x.get('opcode') == '=':
                    tgt = x['inner'][0]
                elif kd == 'CompoundAssignOperator':
                    tgt = x['inner'][0]
                elif kd == 'UnaryOperator' and x.get('opcode') in ('++', '--'):
                    tgt = x['inner'][0]
                elif kd == 'VarDecl':
                    keys.append(('decl', x))
                elif kd == 'CallExpr':
                    clobber.append(x)
                if tgt is not None:
                    keys.append(('lv', tgt))
        return keys, clobber

    def havoc_for_loop(self, n, parts, st):
        st0 = st.copy()            # state before the loop: source of the 'pre' values
        st = st.copy()
        keys, calls = self.assigned_keys(parts, st)
        tag = 'loop@%s' % cast.node_line(n)
        lmap = {}
        st.loops.append((n, lmap))
        self._havoc_keys(self, None, keys, calls, st, st0, lmap, tag, 0)
        # a field that is loop-carried on its own AND as part of its whole struct: the struct's havoc value is what a read
        # of the field yields (the field's own entry was dropped from memory when the struct was havocked after it) - the
        # loop map says so too, or readers would compare the field with a value nothing ever holds
        for k in list(lmap):
            if k[0] == 'f' and k[1][0] == '&' and k[1][1] in lmap and k not in st.mem:
                hs = lmap[k[1][1]][0]
                if isinstance(hs, tuple) and hs[0] == 'h':
                    lmap[k] = (field_of_value(hs, k[2]), lmap[k][1])
        return st

    def _havoc_keys(self, act, es, keys, calls, st, st0, lmap, tag, depth):
        """havoc what the statements `keys`/`calls` were collected from may write.  act/es: activation and state in which
        their expressions are evaluated (a looked-through helper with its parameters bound; None = this frame, st)"""
        own = act is self
        for kind_, x in keys:
            if kind_ == 'decl':
                if not own:
                    continue               # a helper's locals do not outlive its call
                key = ('v', self.varname(x))
                self.clear_var(st, key)
                st.mem[key] = fresh(tag + ':' + key[1])
                self.e.types[st.mem[key]] = cast.qual_type(x)
                lmap[key] = (st.mem[key], None)
                continue
            try:
                alts = act.lvalue(x, st if own else es.copy(), side_effects=False)
            except Unsupported:
                alts = []
            for s_, key in alts:
                if key is None:
                    continue
                if key in lmap:
                    continue
                if not own and any(t[0] == 'v' and isinstance(t[1], str) and t[1].startswith(act.prefix) for t in subterms(key)):
                    continue               # the helper's own variables
                rl = self.e.record_loads
                self.e.record_loads = False
                kt = self.e.types.get(key) or cast.qual_type(x)
                if kt and self.record_fields(kt) is not None:
                    pre = self.whole_struct(st0, key)
                else:
                    pre = self.read(st0, key)
                self.e.record_loads = rl
                for kk in [kk for kk in st.mem if kk == key or rooted_at(kk, ('&', key))]:
                    del st.mem[kk]
                h = fresh(tag + ':' + fmt(key))
                self.e.types[h] = self.e.types.get(key) or cast.qual_type(x)
                st.mem[key] = h
                lmap[key] = (h, pre)
                if key[0] == 'i':
                    st.havoc_roots.append(key[1])      # other elements of the array may be written too
                elif key[0] == 'f' and not (key[1][0] in ('v', '&')):
                    # field written through a computed pointer (e.g. &t->entry[i]): the
                    # pointer may differ per iteration, clobber what its root reaches
                    root = key[1]
                    while root[0] in ('+', '-', 'f', 'i', 'cast') and isinstance(root[1], tuple):
                        nxt = root[1]
                        if nxt[0] in ('v', '&', 'h', 'call'):
                            break
                        root = nxt
                    st.havoc_roots.append(root)
        for c in calls:
            cn = cast.callee_name(c)
            if cn and (cn in PURE_FUNCTIONS or self.e.is_pure(cn)):
                continue
            if cn and depth < 3 and cn not in act.stack and self.e.is_new_helper(cn):
                # a helper the engine will look through: what it writes is read off its body, with its parameters bound
                sub = self._bind_helper(act, cn, c, st if own else es)
                if sub is not None:
                    act2, es2, keys2, calls2 = sub
                    self._havoc_keys(act2, es2, keys2, calls2, st, st0, lmap, tag, depth + 1)
                    continue
            for a in c['inner'][1:]:
                self.clobber_reach(st, a, tag, act=None if own else act, es=None if own else es, pre=st0)
            for a in c['inner'][1:]:
                self.clobber_arg(st, a, tag, act=None if own else act, es=None if own else es)

    def _bind_helper(self, act, name, call, es):
        u2, f2 = self.e.find_fn(name)
        if f2 is None:
            return None
        act2 = _Activation(self.e, u2, name, self.out, self.depth + 1, prefix='%s@pre%d:' % (name, next(_uid)))
        act2.stack = act.stack + (name,)
        s = es.copy()
        for pdecl, a in zip(u2.params(name), call['inner'][1:]):
            try:
                alts = act.eval(a, es.copy(), side_effects=False)
            except Unsupported:
                return None
            if len(alts) != 1:
                return None
            key = ('v', act2.varname(pdecl))
            self.e.types[key] = cast.qual_type(pdecl)
            s.mem[key] = alts[0][1]
        keys, calls = act2.assigned_keys([u2.body(name)], s)
        return act2, s, keys, calls

    def reachable_locals(self, st, vals):
        """locations K (other than the arguments' own pointees) whose address &K is stored, in the state before the call,
        inside an object that one of the pointer arguments leads to - transitively"""
        seen, out, work = set(), [], []
        for v in vals:
            if not isinstance(v, tuple):
                continue
            b = v[1] if v[0] in ('+', '-') else v
            if isinstance(b, tuple) and b[0] == '&':
                work.append(b)
                seen.add(b)
        def found(holder, x):
            st.holders[holder] = st.holders.get(holder, frozenset()) | {x[1]}
            if x not in seen:
                seen.add(x)
                out.append(x[1])
                work.append(x)
        while work:
            b = work.pop()
            for K in st.holders.get(b[1], ()):        # seen stored there before a call havocked the holder
                found(b[1], ('&', K))
            for kk, val in list(st.mem.items()):
                if not (kk == b[1] or rooted_at(kk, b)):
                    continue
                stk = [val]
                while stk:
                    x = stk.pop()
                    if not isinstance(x, tuple) or not x:
                        continue
                    if x[0] == '&' and len(x) == 2 and isinstance(x[1], tuple):
                        # the outermost address only: &p->ep.source hands out the source object, not all of p->ep
                        r = x[1]
                        while isinstance(r, tuple) and r[0] in ('f', 'i', '&'):
                            r = r[1]
                        if isinstance(r, tuple) and r[0] == 'v':
                            found(b[1], x)
                        continue
                    stk.extend(y for y in (x if isinstance(x[0], tuple) else x[1:]) if isinstance(y, tuple))
        return out

    def clobber_arg(self, st, argnode, tag, act=None, es=None):
        """a callee may write through a non-const pointer argument"""
        qt = cast.qual_type(argnode)
        if '*' not in qt and '[' not in qt:
            return
        pointee = qt.rsplit('*', 1)[0]
        if 'const' in pointee.split('*')[-1]:
            return
        try:
            alts = (act or self).eval(argnode, (es if es is not None else st).copy(), side_effects=False)
        except Unsupported:
            return
        for _, v in alts:
            self.clobber_term(st, v, tag)

    def clobber_reach(self, st, argnode, tag, act=None, es=None, pre=None):
        """loop pre-scan: locals whose address is stored inside what a pointer argument of a call in the loop leads to -
        looked up in the state before the loop as well (the holder itself may have been havocked by now)"""
        qt = cast.qual_type(argnode)
        if '*' not in qt and '[' not in qt:
            return
        try:
            alts = (act or self).eval(argnode, (es if es is not None else st).copy(), side_effects=False)
        except Unsupported:
            return
        vals = [v for _, v in alts]
        ks = self.reachable_locals(st, vals)
        if pre is not None:
            ks += [K for K in self.reachable_locals(pre, vals) if K not in ks]
            for h, v in pre.holders.items():
                st.holders[h] = st.holders.get(h, frozenset()) | v
        for K in ks:
            self.clobber_term(st, ('&', K), tag)

    def clobber_term(self, st, v, tag):
        if v[0] == 'c':
            return
        base = v
        if base[0] in ('+', '-'):
            base = base[1]
        for kk in [kk for kk in st.mem if rooted_at(kk, base) and kk != base and not (kk[0] == 'v')]:
            st.shadow[kk] = st.mem[kk]
            del st.mem[kk]
        if base[0] == '&':
            key = base[1]
            for kk in [kk for kk in st.mem if kk == key or rooted_at(kk, base)]:
                del st.mem[kk]
            h = fresh(tag + ':' + fmt(key))
            st.mem[key] = h
            self.e.call_clobbered[h] = key
        st.havoc_roots.append(base)

    def exec_loop(self, n, st, ctx, k):
        kd = cast.kind(n)
        inn = n['inner']
        if kd == 'WhileStmt':
            init, cond, inc, body = None, inn[0], None, inn[1]
        elif kd == 'DoStmt':
            init, cond, inc, body = None, inn[1], None, inn[0]
        else:
            init, cond, inc, body = inn[0], inn[2], inn[3], inn[4]
            if not cond:
                cond = None
            if not inc:
                inc = None
            if not init:
                init = None

        if kd == 'DoStmt' and self.u.const_value(cond) == 0:
            # do { ... } while (0): a block, not a loop
            bctx = _Ctx(brk=k, cont=k, ret=ctx.ret)
            return self.exec_stmt(body, st, bctx, k)

        def after_init(s0):
            hs = self.havoc_for_loop(n, [cond, inc, body], s0)
            hs.loopdepth += 1
            start = len(hs.effects)

            def exit_loop(s):
                s = s.copy()
                s.loopdepth -= 1
                k(s)

            def back(s):
                self.emit(s, 'loopback', None, n)

            def after_body(s):
                if inc is not None:
                    for s2, _ in self.eval(inc, s):
                        if kd == 'DoStmt':
                            pass
                        back(s2)
                else:
                    back(s)
            lctx = _Ctx(brk=exit_loop, cont=after_body, ret=ctx.ret)
            if kd == 'DoStmt':
                def after_do_body(s):
                    for s2, tv in self.branch(cond, s):
                        if tv:
                            back(s2)
                        else:
                            exit_loop(s2)
                lctx.cont = after_do_body
                self.exec_stmt(body, hs.copy(), lctx, after_do_body)
                return
            if cond is None:
                self.exec_stmt(body, hs.copy(), lctx, after_body)
                return
            for s, tv in self.branch(cond, hs):
                if tv:
                    self.exec_stmt(body, s, lctx, after_body)
                else:
                    exit_loop(s)
        if init is not None:
            if cast.kind(init) == 'DeclStmt':
                self.exec_stmt(init, st, ctx, after_init)
            else:
                for s, _ in self.eval(init, st):
                    after_init(s)
        else:
            after_init(st)

    # -- switch ------------------------------------------------------------
    def exec_switch(self, n, st, ctx, k):
        inn = n['inner']
        operand, body = inn[0], inn[-1]
        stmts = cast.inner(body) if cast.kind(body) == 'CompoundStmt' else [body]
        # flatten nested case labels: case A: case B: stmt
        flat = []       # list of (labels, stmt) in order; labels list of values or 'default'
        for s in stmts:
            labels = []
            while cast.kind(s) in ('CaseStmt', 'DefaultStmt'):
                if cast.kind(s) == 'CaseStmt':
                    v = self.u.const_value(s['inner'][0])
                    labels.append(v)
                else:
                    labels.append('default')
                s = s['inner'][-1]
            flat.append((labels, s))
        allvals = [v for labels, _ in flat for v in labels if v != 'default']
        sctx = _Ctx(brk=k, cont=ctx.cont, ret=ctx.ret)
        body_stmts = [s for _, s in flat]
        for s0, opv in self.eval(operand, st):
            hit_default = False
            for idx, (labels, _) in enumerate(flat):
                for v in labels:
                    if v == 'default':
                        hit_default = True
                        conds = [mk_cmp('!=', opv, C(x)) for x in allvals]
                    else:
                        conds = [mk_cmp('==', opv, C(v))]
                    s1 = s0.copy()
                    ok = True
                    for c in conds:
                        if not self.assume(s1, c, operand):
                            ok = False
                            break
                    if ok:
                        self.exec_seq(body_stmts, idx, s1, sctx, k)
            if not hit_default:
                s1 = s0.copy()
                ok = True
                for x in allvals:
                    if not self.assume(s1, mk_cmp('!=', opv, C(x)), operand):
                        ok = False
                        break
                if ok:
                    k(s1)

    # -- conditions ----------------------------------------------------------
    def assume(self, st, c, node):
        """add condition; False if trivially/linearly infeasible"""
        if c[0] == 'c':
            return bool(c[1])
        for c2, _ in st.conds:
            if c2 == negate(c):
                return False
        st.conds.append((c, node))
        if self.e.prune and c[0] == 'cmp' and c[1] != '!=':
            if not self.e.feasible([x for x, _ in st.conds]):
                return False
        if self.e.prune and c[0] == 'cmp' and c[1] == '!=':
            # x != c contradicts x == c
            for c2, _ in st.conds:
                if c2[0] == 'cmp' and c2[1] == '==' and {c2[2], c2[3]} == {c[2], c[3]}:
                    return False
                if c2[0] == 'cmp' and c2[1] == '==' and is_c(c2[3]) and is_c(c[3]) and c2[2] == c[2] and c2[3] != c[3]:
                    pass
        return True

    def branch(self, n, st):
        """yield (state, truth) alternatives for condition node n"""
        n0 = cast.strip(n)
        kd = cast.kind(n0)
        out = []
        if kd == 'UnaryOperator' and n0['opcode'] == '!':
            return [(s, not tv) for s, tv in self.branch(n0['inner'][0], st)]
        if kd == 'BinaryOperator' and n0['opcode'] == '&&':
            for s, tv in self.branch(n0['inner'][0], st):
                if not tv:
                    out.append((s, False))
                else:
                    out += self.branch(n0['inner'][1], s)
            return out
        if kd == 'BinaryOperator' and n0['opcode'] == '||':
            for s, tv in self.branch(n0['inner'][0], st):
                if tv:
                    out.append((s, True))
                else:
                    out += self.branch(n0['inner'][1], s)
            return out
        if kd == 'BinaryOperator' and n0['opcode'] in ('==', '!='):
            # (x == false) / (x == true) idiom on truth-valued operand
            a, b = n0['inner']
            bv = self.u.const_value(b)
            if bv in (0, 1) and self.is_boolean(a):
                want_true = (bv == 1) == (n0['opcode'] == '==')
                return [(s, tv == want_true) for s, tv in self.branch(a, st)]
        if kd == 'CallExpr' and cast.callee_name(n0) == '__builtin_expect':
            return self.branch(n0['inner'][1], st)
        for s, v in self.eval(n0, st):
            c = truth(v)
            if c[0] == 'c':
                out.append((s, bool(c[1])))
                continue
            s1 = s.copy()
            if self.assume(s1, c, n0):
                out.append((s1, True))
            s2 = s.copy()
            if self.assume(s2, negate(c), n0):
                out.append((s2, False))
        return out

    def is_boolean(self, n):
        n0 = cast.strip(n)
        kd = cast.kind(n0)
        if kd == 'BinaryOperator' and n0['opcode'] in ('==', '!=', '<', '>', '<=', '>=', '&&', '||'):
            return True
        if kd == 'UnaryOperator' and n0['opcode'] == '!':
            return True
        qt = cast.qual_type(n0).replace('const ', '').strip()
        if qt in ('_Bool', 'bool'):
            return True
        if kd == 'CallExpr':
            return qt in ('_Bool', 'bool')
        return False

    # -- lvalues ---------------------------------------------------------------
    def lvalue(self, n, st, side_effects=True):
        """-> list of (state, key)"""
        n = cast.strip(n) if cast.kind(n) in ('ParenExpr',) else n
        kd = cast.kind(n)
        if kd == 'ParenExpr':
            return self.lvalue(n['inner'][0], st, side_effects)
        if kd == 'DeclRefExpr':
            rd = n['referencedDecl']
            if rd.get('kind') in ('VarDecl', 'ParmVarDecl'):
                full = self.u.by_id.get(rd['id'], rd)
                if rd['id'] in self.names or self._is_local(rd['id']):
                    key = ('v', self.varname(full if 'name' in full else rd))
                else:
                    key = ('v', rd['name'])      # global
                self.e.types.setdefault(key, cast.qual_type(n))
                return [(st, key)]
            raise Unsupported('lvalue of %s' % rd.get('kind'))
        if kd == 'MemberExpr':
            out = []
            fname_ = self.union_canon(n)
            if n.get('isArrow'):
                for s, b in self.eval(n['inner'][0], st, side_effects):
                    key = ('f', b, fname_)
                    self.e.types.setdefault(key, cast.qual_type(n))
                    out.append((s, key))
            else:
                for s, bk in self.lvalue(n['inner'][0], st, side_effects):
                    key = ('f', ('&', bk), fname_)
                    if bk[0] == 'i' or bk[0] == 'f':
                        # a[i].f  ->  f of pointer a+i ; p->s.f -> f of &(p->s)
                        if bk[0] == 'i':
                            key = ('f', add(bk[1], bk[2]), fname_)
                    self.e.types.setdefault(key, cast.qual_type(n))
                    out.append((s, key))
            return out
        if kd == 'ArraySubscriptExpr':
            out = []
            for s, b in self.eval(n['inner'][0], st, side_effects):
                for s2, i in self.eval(n['inner'][1], s, side_effects):
                    key = self.index_key(b, i)
                    self.e.types.setdefault(key, cast.qual_type(n))
                    out.append((s2, key))
            return out
        if kd == 'UnaryOperator' and n['opcode'] == '*':
            out = []
            for s, b in self.eval(n['inner'][0], st, side_effects):
                key = self.index_key(b, C(0))
                self.e.types.setdefault(key, cast.qual_type(n))
                out.append((s, key))
            return out
        if kd in ('CStyleCastExpr', 'ImplicitCastExpr'):
            return self.lvalue(n['inner'][0], st, side_effects)
        if kd == 'CompoundLiteralExpr':
            key = ('v', '%scompound@%s' % (self.prefix, cast.node_line(n)))
            out = []
            il = cast.strip(n['inner'][0])
            for s, _ in self.eval_initlist(il, st, key):
                out.append((s, key))
            return out
        raise Unsupported('lvalue kind %s' % kd)

    def union_canon(self, n):
        """members of a union of equally sized scalars share one location: use
        the first member's name for all of them"""
        base = n['inner'][0]
        bt = base.get('type', {})
        qt = (bt.get('desugaredQualType') or bt.get('qualType') or '').replace('const ', '').replace('*', '').strip()
        if not qt.startswith('union '):
            td = None
            for u in self.e.units:
                if qt in u.typedefs:
                    td = u.typedefs[qt]
                    break
            if not td:
                return n['name']
            qt = (td.get('desugaredQualType') or td.get('qualType') or '')
            if not qt.startswith('union '):
                return n['name']
        c = self.e.__dict__.setdefault('_union_cache', {})
        if qt not in c:
            c[qt] = None
            for u in self.e.units:
                r = u.records.get(qt.split(' ', 1)[1])
                if r:
                    fl = [f for f in cast.inner(r) if cast.kind(f) == 'FieldDecl']
                    sizes = {SIZEOF_BASIC.get(cast.qual_type(f).replace('const ', '').strip()) for f in fl}
                    if len(sizes) == 1 and None not in sizes:
                        c[qt] = fl[0]['name']
                    break
        return c[qt] or n['name']

    def _is_local(self, did):
        d = self.u.by_id.get(did)
        if d is None:
            return True
        if d.get('kind') == 'ParmVarDecl':
            return True
        gids = getattr(self.u, '_global_ids', None)
        if gids is None:
            gids = self.u._global_ids = {g['id'] for g in self.u.globals.values()}
        return d.get('storageClass') != 'extern' and did not in gids

    def index_key(self, b, i):
        # *&x  ->  x
        if b[0] == '&' and is_c(i, 0):
            return b[1]
        # normalise *(p + j) / (p+j)[i]  ->  p[j+i]
        if b[0] == '+':
            return ('i', b[1], add(b[2], i))
        if b[0] == '-':
            return ('i', b[1], sub(i, b[2]))
        return ('i', b, i)

    # -- memory ------------------------------------------------------------------
    def read(self, st, key, node=None):
        if self.e.record_loads and node is not None and (key[0] == 'i' or (key[0] == 'f' and key[1][0] in ('+', '-'))):
            e = Effect('load', key, (), node)
            e.inloop = st.loopdepth
            e.frame = self.prefix
            st.effects.append(e)
        if key in st.mem:
            return st.mem[key]
        # field of a struct that was assigned as a whole (possibly an enclosing one)
        if key[0] == 'f' and key[1][0] == '&':
            sv = self.struct_value(st, key[1][1])
            if sv is not None:
                return self.field_of(sv, key[2])
        for r in st.havoc_roots:
            if rooted_at(key, r) and key != r:
                h = fresh('clobbered:' + fmt(key))
                self.e.types[h] = self.e.types.get(key)
                self.e.clobber_origin[h] = key
                self.e.clobber_pre[h] = st.shadow.get(key, key)
                st.mem[key] = h
                return h
        return key

    def struct_value(self, st, K):
        if K in st.mem:
            return st.mem[K]
        if K[0] == 'f' and K[1][0] == '&':
            parent = self.struct_value(st, K[1][1])
            if parent is not None:
                return self.field_of(parent, K[2])
        return None

    def field_of(self, sv, field):
        if sv[0] in ('f', 'i', 'v'):
            return ('f', ('&', sv), field)       # field of an unmodified object: its own location term
        if sv[0] == 'struct':
            for f, v in sv[2]:
                if f == field:
                    return v
            if sv[1] is None:
                return C(0)
            return self.field_of(sv[1], field)
        return ('fv', sv, field)

    def whole_struct(self, st, key):
        """value of struct-typed location key as a term"""
        base = st.mem.get(key)
        if base is None:
            r = self.read(st, key)
            if r != key:
                base = r
        over = []
        pref = ('&', key)
        for kk, v in st.mem.items():
            if kk[0] == 'f' and kk[1] == pref:
                over.append((kk[2], v))
        if base is None and not over:
            return key
        if base is not None and not over:
            return base
        if base is not None and base[0] == 'struct':
            d = dict(base[2])
            d.update(dict(over))
            return ('struct', base[1], tuple(sorted(d.items())))
        return ('struct', base if base is not None else key, tuple(sorted(over)))

    def assign(self, st, key, v, node, record=True):
        qt = self.e.types.get(key, '')
        if v is not None and v[0] == 'struct' and False:
            pass
        # `*p = value` for a pointer to a record is the assignment of every field of p's object: written field by field
        # (`p->f = value.f`), the form in which the rest of the code - and every rule - speaks about the object
        if key[0] == 'i' and key[2] == C(0) and key[1][0] != '&' and node is not None and isinstance(v, tuple) \
                and (v[0] == 'struct' or (v[0] == 'i' and v[2] == C(0))):
            rf = self.record_fields(cast.qual_type(node)) if cast.kind(node) in ('BinaryOperator',) and node.get('opcode') == '=' else None
            if rf:
                for f, fqt in rf:
                    fv = ('f', v[1], f) if v[0] == 'i' else self.field_of(v, f)
                    if v[0] == 'i':
                        fv = self.read(st, fv)
                    self.e.types.setdefault(('f', key[1], f), fqt)
                    self.assign(st, ('f', key[1], f), fv, node, record)
                return
        # whole-struct assignment clears field overrides
        for kk in [kk for kk in st.mem if kk != key and rooted_at(kk, ('&', key))]:
            del st.mem[kk]
        st.mem[key] = v
        if record and key[0] != 'v':
            e = Effect('store', key, (v,), node)
            e.inloop = st.loopdepth
            e.frame = self.prefix
            st.effects.append(e)
        elif record and key[0] == 'v' and not self._known_local(key):
            e = Effect('store', key, (v,), node)
            e.inloop = st.loopdepth
            e.frame = self.prefix
            st.effects.append(e)

    def _known_local(self, key):
        return key[1] in self.names.values()

    # -- expressions -------------------------------------------------------------
    def eval(self, n, st, side_effects=True):
        """-> list of (state, term).  States may be shared when unchanged."""
        kd = cast.kind(n)
        if kd in ('ParenExpr', 'ConstantExpr'):
            if kd == 'ConstantExpr' and 'value' in n:
                try:
                    return [(st, C(int(n['value'])))]
                except ValueError:
                    pass
            return self.eval(n['inner'][0], st, side_effects)
        if kd == 'IntegerLiteral' or kd == 'CharacterLiteral':
            return [(st, C(int(n['value'])))]
        if kd == 'FloatingLiteral':
            return [(st, ('flt', n.get('value', '?')))]
        if kd == 'StringLiteral':
            return [(st, ('str', n.get('value', '')))]
        if kd == 'ImplicitCastExpr' or kd == 'CStyleCastExpr':
            ck = n.get('castKind')
            sub_ = n['inner'][0]
            if ck == 'LValueToRValue':
                out = []
                qt = cast.qual_type(n)
                for s, key in self.lvalue(sub_, st, side_effects):
                    if self.record_fields(qt) is not None:
                        out.append((s, self.whole_struct(s, key)))
                    else:
                        v_ = self.read(s, key, n)
                        if v_[0] in ('f', 'fv', 'i') and v_ not in self.e.types:
                            dq = (n.get('type', {}).get('desugaredQualType') or qt)
                            self.e.types[v_] = dq          # declared type of the object read (for width / range questions)
                        out.append((s, v_))
                return out
            if ck == 'ArrayToPointerDecay':
                s0 = cast.strip(sub_)
                if cast.kind(s0) == 'StringLiteral':
                    return [(st, ('str', s0.get('value', '')))]
                return [(s, ('&', key)) for s, key in self.lvalue(sub_, st, side_effects)]
            if ck in ('FunctionToPointerDecay', 'BuiltinFnToFnPtr'):
                s0 = cast.strip(sub_)
                if cast.kind(s0) == 'DeclRefExpr':
                    return [(st, ('fn', s0['referencedDecl']['name']))]
                return self.eval(sub_, st, side_effects)
            if ck == 'NullToPointer':
                return [(st, C(0))]
            if ck in ('IntegralCast', 'IntegralToBoolean', 'PointerToBoolean', 'FloatingToBoolean'):
                out = []
                for s, v in self.eval(sub_, st, side_effects):
                    if ck != 'IntegralCast':
                        t = truth(v)
                        out.append((s, t))
                        continue
                    out.append((s, self.int_cast(v, cast.qual_type(sub_), cast.qual_type(n), n)))
                return out
            if ck in ('NoOp', 'BitCast', 'ToVoid', 'LValueBitCast'):
                return self.eval(sub_, st, side_effects)
            if ck in ('IntegralToFloating', 'FloatingCast', 'FloatingToIntegral',
                      'IntegralToPointer', 'PointerToIntegral'):
                return [(s, ('cast', cast.qual_type(n), v)) for s, v in self.eval(sub_, st, side_effects)]
            raise Unsupported('cast kind %s' % ck)
        if kd == 'DeclRefExpr':
            rd = n['referencedDecl']
            if rd.get('kind') == 'EnumConstantDecl':
                v = None
                for u in self.e.units:
                    if rd['name'] in u.enums:
                        v = u.enums[rd['name']]
                        break
                if v is None:
                    raise Unsupported('enum constant %s' % rd['name'])
                return [(st, C(v))]
            if rd.get('kind') == 'FunctionDecl':
                return [(st, ('fn', rd['name']))]
            out = []
            for s, key in self.lvalue(n, st, side_effects):
                out.append((s, self.read(s, key, n)))
            return out
        if kd == 'MemberExpr' or kd == 'ArraySubscriptExpr':
            # rvalue of record type (struct rvalue member) or array
            out = []
            for s, key in self.lvalue(n, st, side_effects):
                out.append((s, self.read(s, key, n)))
            return out
        if kd == 'UnaryExprOrTypeTraitExpr':
            v = self.sizeof_value(n)
            return [(st, v)]
        if kd == 'UnaryOperator':
            return self.eval_unary(n, st, side_effects)
        if kd == 'BinaryOperator':
            return self.eval_binary(n, st, side_effects)
        if kd == 'CompoundAssignOperator':
            op = n['opcode'][:-1]
            out = []
            for s, key in self.lvalue(n['inner'][0], st, side_effects):
                for s2, b in self.eval(n['inner'][1], s, side_effects):
                    a = self.read(s2, key, n)
                    v = self.arith(op, a, b, n)
                    s3 = s2.copy()
                    self.assign(s3, key, v, n)
                    out.append((s3, v))
            return out
        if kd == 'ConditionalOperator':
            out = []
            for s, tv in self.branch(n['inner'][0], st):
                out += self.eval(n['inner'][1] if tv else n['inner'][2], s, side_effects)
            return out
        if kd == 'CallExpr':
            return self.eval_call(n, st, side_effects)
        if kd == 'CompoundLiteralExpr':
            out = []
            for s, key in self.lvalue(n, st, side_effects):
                out.append((s, self.whole_struct(s, key)))
            return out
        if kd == 'InitListExpr':
            key = ('v', '%sinit@%s' % (self.prefix, cast.node_line(n)))
            return [(s, self.whole_struct(s, key)) for s, _ in self.eval_initlist(n, st, key)]
        if kd == 'StmtExpr':
            raise Unsupported('statement expression')
        if kd == 'ImplicitValueInitExpr':
            return [(st, C(0))]
        if kd == 'PredefinedExpr':
            return [(st, ('str', '__func__'))]
        if kd == 'VAArgExpr':
            return [(st, fresh('va_arg'))]
        raise Unsupported('expression kind %s' % kd)

    INT_BITS = {'_Bool': 1, 'bool': 1, 'char': 8, 'signed char': 8, 'unsigned char': 8, 'short': 16,
                'unsigned short': 16, 'int': 32, 'unsigned int': 32, 'long': 64, 'unsigned long': 64,
                'long long': 64, 'unsigned long long': 64}

    def int_cast(self, v, from_qt, to_qt, node):
        fb = self.INT_BITS.get(from_qt.replace('const ', '').strip())
        tb = self.INT_BITS.get(to_qt.replace('const ', '').strip())
        if v[0] == 'c':
            if tb and tb < 64 and not to_qt.replace('const ', '').startswith('unsigned') and -(1 << (tb - 1)) <= v[1] < (1 << (tb - 1)):
                return v
            if tb and to_qt.replace('const ', '').strip().startswith('unsigned') or to_qt in ('_Bool',):
                if tb:
                    return C(v[1] & ((1 << tb) - 1)) if tb > 1 else C(int(bool(v[1])))
            return v
        if fb and tb and tb < fb:
            # x & m with a constant mask that fits the target type is unchanged by the narrowing
            if v[0] == '&b' and ((is_c(v[2]) and 0 <= v[2][1] < (1 << (tb - (0 if to_qt.replace('const ', '').strip().startswith('unsigned') else 1))))
                                 or (is_c(v[1]) and 0 <= v[1][1] < (1 << (tb - (0 if to_qt.replace('const ', '').strip().startswith('unsigned') else 1))))):
                return v
            return ('cast', to_qt.replace('const ', '').strip(), v)      # narrowing: opaque
        return v

    def sizeof_value(self, n):
        at = n.get('argType')
        if at:
            ts = at.get('qualType')
        else:
            ts = cast.qual_type(cast.strip(n['inner'][0]))
            ts = cast.strip(n['inner'][0]).get('type', {}).get('qualType', ts)
        if n.get('name') != 'sizeof':
            return fresh(n.get('name', 'trait'))
        v = self.e.sizeof.get(ts)
        if v is None:
            v = SIZEOF_BASIC.get(ts.replace('const ', '').strip())
        if v is None:
            return ('sizeof', ts)
        return C(v)

    def eval_unary(self, n, st, side_effects):
        op = n['opcode']
        sub_ = n['inner'][0]
        if op == '&':
            s0 = cast.strip(sub_)
            if cast.kind(s0) == 'DeclRefExpr' and s0['referencedDecl'].get('kind') == 'FunctionDecl':
                return [(st, ('fn', s0['referencedDecl']['name']))]
            out = []
            for s, key in self.lvalue(sub_, st, side_effects):
                if key[0] == 'i':
                    out.append((s, add(key[1], key[2])))
                else:
                    out.append((s, ('&', key)))
            return out
        if op == '*':
            out = []
            qt = cast.qual_type(n)
            for s, key in self.lvalue(n, st, side_effects):
                if self.record_fields(qt) is not None:
                    out.append((s, self.whole_struct(s, key)))
                else:
                    out.append((s, self.read(s, key, n)))
            return out
        if op in ('++', '--'):
            out = []
            for s, key in self.lvalue(sub_, st, side_effects):
                old = self.read(s, key, n)
                new = add(old, C(1)) if op == '++' else sub(old, C(1))
                s2 = s.copy()
                self.assign(s2, key, new, n)
                out.append((s2, old if n.get('isPostfix') else new))
            return out
        if op == '!':
            out = []
            for s, tv in self.branch(sub_, st):
                out.append((s, C(0 if tv else 1)))
            return out
        out = []
        for s, v in self.eval(sub_, st, side_effects):
            if op == '-':
                out.append((s, self.wrap_const(C(-v[1]), n) if is_c(v) else ('neg', v)))
            elif op == '+':
                out.append((s, v))
            elif op == '~':
                out.append((s, self.wrap_const(C(~v[1]), n) if is_c(v) else ('~', v)))
            elif op == '__extension__':
                out.append((s, v))
            else:
                raise Unsupported('unary %s' % op)
        return out

    def arith(self, op, a, b, node):
        m = {'&': '&b', '|': '|b', '^': '^b'}
        r = mk_bin(m.get(op, op), a, b)
        if r[0] == 'c' and is_c(a) and is_c(b):
            r = self.wrap_const(r, node)
        elif r[0] in ('+', '-', '*', '<<') and node is not None:
            # remember the C type the operation is carried out in: rules that must exclude wrap-around of arithmetic
            # narrower than size_t (narrow_ops) look it up
            qt = (node.get('type', {}).get('desugaredQualType') or node.get('type', {}).get('qualType') or '')
            self.e.optype.setdefault(r, qt)
        return r

    def wrap_const(self, c, node):
        """constant folding follows the C type of the expression: unsigned types wrap
        modulo 2^N, signed ones are reduced to their two's-complement range"""
        qt = cast.qual_type(node).replace('const ', '').strip() if isinstance(node, dict) else ''
        ct = node.get('computeResultType', {}) if isinstance(node, dict) else {}
        if ct:
            qt = (ct.get('desugaredQualType') or ct.get('qualType') or qt).replace('const ', '').strip()
        bits = self.INT_BITS.get(qt)
        if not bits or bits == 1:
            return c
        v = c[1] & ((1 << bits) - 1)
        if not qt.startswith('unsigned') and v >> (bits - 1):
            v -= 1 << bits
        return C(v)

    def eval_binary(self, n, st, side_effects):
        op = n['opcode']
        l, r = n['inner']
        if op == '=':
            out = []
            qt = cast.qual_type(n)
            for s, key in self.lvalue(l, st, side_effects):
                for s2, v in self.eval(r, s, side_effects):
                    s3 = s2.copy()
                    self.assign(s3, key, v, n)
                    out.append((s3, v))
            return out
        if op == ',':
            out = []
            for s, _ in self.eval(l, st, side_effects):
                out += self.eval(r, s, side_effects)
            return out
        if op in ('&&', '||'):
            return [(s, C(int(tv))) for s, tv in self.branch(n, st)]
        out = []
        for s, a in self.eval(l, st, side_effects):
            for s2, b in self.eval(r, s, side_effects):
                if op in ('<', '>', '<=', '>=', '==', '!='):
                    out.append((s2, mk_cmp(op, a, b)))
                else:
                    out.append((s2, self.arith(op, a, b, n)))
        return out

    # -- calls -----------------------------------------------------------------
    def eval_call(self, n, st, side_effects):
        callee = cast.strip(n['inner'][0])
        name = cast.callee_name(n)
        argnodes = n['inner'][1:]
        # evaluate arguments left to right
        alts = [(st, [])]
        for a in argnodes:
            nxt = []
            for s, vals in alts:
                qt = cast.qual_type(a)
                if self.record_fields(qt) is not None and cast.kind(a) == 'ImplicitCastExpr' and a.get('castKind') == 'LValueToRValue':
                    for s2, key in self.lvalue(a['inner'][0], s, side_effects):
                        nxt.append((s2, vals + [self.whole_struct(s2, key)]))
                    continue
                for s2, v in self.eval(a, s, side_effects):
                    nxt.append((s2, vals + [v]))
            alts = nxt
        out = []
        for s, vals in alts:
            if name is not None:
                if name in ('__builtin_expect',):
                    out.append((s, vals[0]))
                    continue
                if name in ('memcpy', '__builtin_memcpy') and len(vals) == 3:
                    s2 = self.struct_memcpy(s, vals, argnodes, n)
                    if s2 is not None:
                        out.append((s2, vals[0]))
                        continue
                if name in self.e.inline and self.depth < self.e.inline_depth:
                    u2, f2 = self.e.find_fn(name)
                    if f2 is not None:
                        out += self.inline_call(u2, name, vals, s, n)
                        continue
                if name not in self.stack and self.depth < self.e.inline_depth + 3 and self.e.is_new_helper(name):
                    u2, f2 = self.e.find_fn(name)
                    self.e.auto_inlined.add(name)
                    LOOKED_THROUGH.add(name)
                    out += self.inline_call(u2, name, vals, s, n)
                    continue
                desc, kind_, chain = name, 'call', None
            else:
                chain = cast.member_chain(callee)
                desc = '.'.join(chain[1:]) if len(chain) > 1 else chain[0]
                kind_ = 'icall'
                # evaluate callee expression for completeness (function pointer value)
            s2 = s.copy()
            res = ('call', desc, tuple(vals), next(_uid))
            self.e.types[res] = cast.qual_type(n)
            if name is not None and self.depth < self.e.inline_depth + 2 and self.e.is_accessor(name):
                # the call stays the event it is; what it computes is kept as a fact about its result
                try:
                    u2, f2 = self.e.find_fn(name)
                    alts_ = self.inline_call(u2, name, vals, s.copy(), n)
                    if len(alts_) == 1 and isinstance(alts_[0][1], tuple) and alts_[0][1][0] != 'struct':
                        self.e.definitions[res] = alts_[0][1]
                except (Unsupported, PathLimit):
                    pass
            ef = Effect(kind_, desc, tuple(vals), n, res, chain=chain)
            ef.inloop = s2.loopdepth
            ef.frame = self.prefix
            if kind_ == 'icall':
                try:
                    fp = self.eval(callee, s2.copy(), side_effects=False)
                    ef.extra = fp[0][1] if fp else None
                except Unsupported:
                    ef.extra = None
            s2.effects.append(ef)
            if name not in PURE_FUNCTIONS and name not in self.e.pure and not (name and self.e.is_pure(name)):
                # a local whose address the caller has stored inside an object handed to the callee (a driver's context
                # in a Source / Sink, a buffer in a sink) may be written by the callee through that stored address
                reach = self.reachable_locals(s2, vals)       # s2 is still the state before the call; the holders found are kept in it
                for K in reach + [v_[1] for v_ in vals if isinstance(v_, tuple) and v_[0] == '&' and isinstance(v_[1], tuple) and v_[1][0] == 'v']:
                    ef.pointees[K] = self.whole_struct(s, K)
                for K in reach:
                    self.clobber_term(s2, ('&', K), 'call:' + desc)
                for a, v in zip(argnodes, vals):
                    qt = cast.qual_type(a)
                    if '*' in qt or '[' in qt:
                        # parameter type decides constness, not the argument's type
                        ai = argnodes.index(a)
                        if not self.param_is_const_ptr(name, callee, ai):
                            if name is not None and not self.e.param_written(name, ai):
                                continue
                            self.clobber_term(s2, v, 'call:' + desc)
            out.append((s2, res))
        return out

    def struct_memcpy(self, st, vals, argnodes, node):
        """memcpy(&X, p, sizeof(T)) with X a struct T object: field-wise copy X = *p"""
        dst, src, ln = vals
        if dst[0] != '&' or not is_c(ln):
            return None
        a0 = cast.strip_all_casts(argnodes[0])
        if cast.kind(a0) != 'UnaryOperator' or a0.get('opcode') != '&':
            return None
        qt = a0['inner'][0].get('type', {}).get('qualType', '')
        fields = self.record_fields(cast.qual_type(a0['inner'][0]))
        sz = self.e.sizeof.get(qt)
        if fields is None or sz is None or sz != ln[1]:
            return None
        s2 = st.copy()
        key = dst[1]
        self.clear_var(s2, key)
        for fname, fqt in fields:
            skey = ('f', src, fname)
            self.e.types.setdefault(skey, fqt)
            s2.mem[('f', ('&', key), fname)] = self.read(s2, skey)
            self.e.types.setdefault(('f', ('&', key), fname), fqt)
        ef = Effect('call', 'memcpy', tuple(vals), node, vals[0], extra='struct-copy')
        ef.inloop = s2.loopdepth
        ef.frame = self.prefix
        s2.effects.append(ef)
        return s2

    def param_is_const_ptr(self, name, callee, idx):
        ptypes = None
        if name is not None:
            for u in self.e.units:
                d = u.fn_decls.get(name)
                if d is not None:
                    ps = [c for c in cast.inner(d) if cast.kind(c) == 'ParmVarDecl']
                    ptypes = [cast.qual_type(p) for p in ps]
                    break
        else:
            qt = callee.get('type', {}).get('qualType', '')
            # "RegisterAccess (*)(RegisterArea *, const RegisterAtom *, ...)"; a typedef'd function pointer type is looked up
            if '(*)(' not in qt:
                dq = callee.get('type', {}).get('desugaredQualType', '')
                if '(*)(' in dq:
                    qt = dq
                else:
                    for u in self.e.units:
                        td = u.typedefs.get(qt.replace('const ', '').strip())
                        if td and '(*)(' in (td.get('desugaredQualType') or td.get('qualType') or ''):
                            qt = td.get('desugaredQualType') if '(*)(' in (td.get('desugaredQualType') or '') else td.get('qualType')
                            break
            if '(*)(' in qt:
                inside = qt.split('(*)(', 1)[1].rsplit(')', 1)[0]
                ptypes = [p.strip() for p in split_params(inside)]
        if not ptypes or idx >= len(ptypes):
            return False
        pt = ptypes[idx]
        if '*' not in pt:
            return True
        pointee = pt.rsplit('*', 1)[0]
        return 'const' in pointee.split('*')[-1]

    def inline_call(self, u2, name, vals, st, callnode):
        out = []
        uid = next(_uid)
        act = _Activation(self.e, u2, name, self.out, self.depth + 1, prefix='%s@%d:' % (name, uid))
        act.stack = self.stack + (name,)
        s0 = st.copy()
        marker = Effect('enter', name, tuple(vals), callnode)
        marker.inloop = s0.loopdepth
        marker.frame = self.prefix
        s0.effects.append(marker)
        for p, v in zip(u2.params(name), vals):
            key = ('v', act.varname(p))
            self.e.types[key] = cast.qual_type(p)
            if v[0] == 'struct':
                s0.mem[key] = v
            else:
                s0.mem[key] = v
        results = []

        def on_ret(s, v, node):
            s = s.copy()
            lv = Effect('leave', name, (v,) if v is not None else (), callnode)
            lv.frame = self.prefix
            s.effects.append(lv)
            results.append((s, v if v is not None else C(0)))
        ctx = _Ctx(ret=on_ret)
        act.exec_stmt(u2.body(name), s0, ctx, lambda s: on_ret(s, None, None))
        return results


_KNOWN = None
LOOKED_THROUGH = set()       # helpers newer than the confirmed function table that some engine expanded in this run


def KNOWN_FUNCTIONS():
    global _KNOWN
    if _KNOWN is None:
        import json, os
        try:
            _KNOWN = set(json.load(open(os.path.join(os.path.dirname(os.path.abspath(__file__)), 'known_functions.json')))['functions'])
        except (OSError, ValueError, KeyError):
            _KNOWN = None
            raise Unsupported('known_functions.json not readable')
    return _KNOWN


PURE_FUNCTIONS = {'isnormal', 'isfinite', 'isnan', 'isinf', 'fpclassify', '__builtin_isnormal',
                  '__builtin_isfinite', '__builtin_isnan', '__builtin_isinf', '__builtin_fpclassify',
                  'strlen', 'isxdigit', 'tolower', 'isspace', 'isdigit', 'isalpha', 'memcmp', 'strcmp',
                  '__builtin_isinf_sign', '__builtin_isnanf', '__builtin_expect'}

SIZEOF_BASIC = {'char': 1, 'unsigned char': 1, 'signed char': 1, 'short': 2, 'unsigned short': 2,
                'int': 4, 'unsigned int': 4, 'long': 8, 'unsigned long': 8, 'long long': 8,
                'unsigned long long': 8, 'float': 4, 'double': 8, '_Bool': 1,
                'uint8_t': 1, 'int8_t': 1, 'uint16_t': 2, 'int16_t': 2, 'uint32_t': 4, 'int32_t': 4,
                'uint64_t': 8, 'int64_t': 8, 'size_t': 8, 'ssize_t': 8}


def split_params(s):
    out, depth, cur = [], 0, ''
    for ch in s:
        if ch == '(':
            depth += 1
        elif ch == ')':
            depth -= 1
        if ch == ',' and depth == 0:
            out.append(cur)
            cur = ''
        else:
            cur += ch
    if cur.strip():
        out.append(cur)
    return out


def unit_sizeofs(unit_rel, unit, variant=None):
    """evaluate every sizeof() appearing in repository code of the unit with one
    compiler probe"""
    from . import front
    types = set()
    for fname, f in unit.functions.items():
        fl = cast.node_file(f)
        if not fl or not fl.startswith(front.REPO):
            continue
        for x in cast.walk(f):
            if cast.kind(x) == 'UnaryExprOrTypeTraitExpr' and x.get('name') == 'sizeof':
                at = x.get('argType')
                ts = at.get('qualType') if at else cast.strip(x['inner'][0]).get('type', {}).get('qualType')
                if ts and 'unnamed' not in ts and 'anonymous' not in ts:
                    types.add(ts)
    for g in unit.globals.values():
        for x in cast.walk(g):
            if cast.kind(x) == 'UnaryExprOrTypeTraitExpr' and x.get('name') == 'sizeof':
                at = x.get('argType')
                ts = at.get('qualType') if at else cast.strip(x['inner'][0]).get('type', {}).get('qualType')
                if ts and 'unnamed' not in ts and 'anonymous' not in ts:
                    types.add(ts)
    types = sorted(types)

    def cdecl(ts):
        # "unsigned char[16]" is fine inside sizeof()
        return 'sizeof(%s)' % ts
    try:
        vals = front.probe_values(unit_rel, [cdecl(t) for t in types], variant)
    except front.FrontError:
        vals = []
        for t in types:
            try:
                vals.append(front.probe_values(unit_rel, [cdecl(t)], variant)[0])
            except front.FrontError:
                vals.append(None)
    res = {t: v for t, v in zip(types, vals) if v is not None}
    unit.sizeofs = res
    return res
