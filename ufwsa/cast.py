"""Access to the type-checked program: clang JSON AST of one translation unit.

Resolves the delta-encoded source locations, indexes declarations by id and
name and offers small helpers used by all rules.
"""
import json, os, re
from . import front

_cache = {}


class Unit:
    def __init__(self, rel, path):
        self.rel = rel
        self.path = path
        with open(path) as fh:
            self.root = json.load(fh)
        self.by_id = {}
        self.functions = {}     # name -> FunctionDecl node that has a body
        self.fn_decls = {}      # name -> any FunctionDecl (prototype)
        self.records = {}       # name -> RecordDecl (complete)
        self.record_by_id = {}
        self.enums = {}         # enumerator name -> int
        self.enum_decls = {}    # enum name -> [(enumerator, value)]
        self.typedefs = {}      # name -> type dict
        self.globals = {}       # name -> VarDecl
        self._resolve_locs()
        self._index()
        self.renamed = {}       # function -> {confirmed name: name in the source}
        self._canonical_names()

    # -- locations -------------------------------------------------------
    def _resolve_locs(self):
        st = {'file': None, 'line': None}

        def fix(loc):
            if not isinstance(loc, dict) or not loc:
                return
            if 'spellingLoc' in loc or 'expansionLoc' in loc:
                for k in loc:
                    if k in ('spellingLoc', 'expansionLoc'):
                        fix(loc[k])
                return
            if 'file' in loc:
                st['file'] = loc['file']
            else:
                loc['file'] = st['file']
            if 'line' in loc:
                st['line'] = loc['line']
            elif 'offset' in loc:
                loc['line'] = st['line']

        stack = [self.root]
        # iterative pre-order walk honouring key order (loc, range, inner)
        def walk(n):
            stk = [n]
            while stk:
                x = stk.pop()
                if not isinstance(x, dict):
                    continue
                for k, v in x.items():
                    if k == 'loc':
                        fix(v)
                    elif k == 'range':
                        fix(v.get('begin'))
                        fix(v.get('end'))
                inner = x.get('inner')
                if inner:
                    stk.extend(reversed(inner))
        walk(self.root)

    # -- indexing ----------------------------------------------------------
    def _index(self):
        for n in self.root.get('inner', []):
            self._index_decl(n)

    def _index_decl(self, n):
        k = n.get('kind')
        if 'id' in n:
            self.by_id[n['id']] = n
        if k == 'FunctionDecl':
            name = n.get('name')
            self.fn_decls.setdefault(name, n)
            params = [c for c in n.get('inner', []) if c.get('kind') == 'ParmVarDecl']
            for p in params:
                self.by_id[p['id']] = p
            body = [c for c in n.get('inner', []) if c.get('kind') == 'CompoundStmt']
            if body:
                self.functions[name] = n
                self._index_body(body[0])
        elif k == 'RecordDecl':
            if n.get('completeDefinition'):
                if n.get('name'):
                    self.records[n['name']] = n
                self.record_by_id[n['id']] = n
            for c in n.get('inner', []):
                if c.get('kind') in ('RecordDecl', 'FieldDecl'):
                    self.by_id[c['id']] = c
                    if c.get('kind') == 'RecordDecl':
                        self._index_decl(c)
                elif c.get('kind') == 'EnumDecl':
                    self._index_decl(c)
        elif k == 'EnumDecl':
            val = -1
            lst = []
            for c in n.get('inner', []):
                if c.get('kind') != 'EnumConstantDecl':
                    continue
                self.by_id[c['id']] = c
                v = None
                for cc in c.get('inner', []):
                    v = self.const_value(cc)
                val = v if v is not None else val + 1
                self.enums[c['name']] = val
                lst.append((c['name'], val))
            self.enum_decls[n.get('name') or n['id']] = lst
        elif k == 'TypedefDecl':
            self.typedefs[n['name']] = n.get('type', {})
            # typedef struct {...} Name; -> the anonymous record is reachable through the typedef name
            for c in n.get('inner', []):
                otd = c.get('ownedTagDecl') if isinstance(c, dict) else None
                if otd and otd.get('kind') == 'RecordDecl':
                    self.__dict__.setdefault('typedef_record', {})[n['name']] = otd.get('id')
            # typedef enum {...} Name; -> anonymous enum gets the typedef name
            for c in n.get('inner', []):
                pass
        elif k == 'VarDecl':
            self.globals[n['name']] = n

    def _index_body(self, n):
        stk = [n]
        while stk:
            x = stk.pop()
            if not isinstance(x, dict):
                continue
            if x.get('kind') == 'VarDecl':
                self.by_id[x['id']] = x
            inner = x.get('inner')
            if inner:
                stk.extend(inner)

    # -- names ---------------------------------------------------------------
    def _canonical_names(self):
        """Rules address parameters and locals by the names they had on the tree the rules were confirmed on
        (known_functions.json: parameters by position and type, locals by order of declaration and type).  A function
        whose variables were merely renamed gets the confirmed names back here, in the loaded tree only; a function with
        a different parameter list keeps its names, and so do its locals when their number or types changed."""
        tab = _known_names()
        if not tab or os.environ.get('UFWSA_NO_CANON'):
            return
        for fname, f in self.functions.items():
            alts = tab.get(fname)
            fl = node_file(f)
            if not alts or not fl or not fl.startswith(front.REPO):
                continue
            ps = [c for c in f.get('inner', []) if c.get('kind') == 'ParmVarDecl']
            body = self.body(fname)
            ls = [x for x in walk(body) if x.get('kind') == 'VarDecl']
            ren = {}
            for alt in alts:
                r = {}
                if len(alt['params']) == len(ps) and all(qual_type(q) == t for q, (n_, t) in zip(ps, alt['params'])):
                    for q, (n_, t) in zip(ps, alt['params']):
                        if q.get('name') != n_ and n_:
                            r[q['id']] = n_
                    if len(alt['locals']) == len(ls) and all(qual_type(x) == t for x, (n_, t) in zip(ls, alt['locals'])):
                        for x, (n_, t) in zip(ls, alt['locals']):
                            if x.get('name') != n_ and n_:
                                r[x['id']] = n_
                    elif len(alt['locals']) == len(ls):
                        # declarations were reordered as well: the same types with the same multiplicities - locals of one
                        # type keep their relative order, names are handed out per type
                        def norm(t):
                            return t.replace('const ', '').strip()
                        want, have = {}, {}
                        for n_, t in alt['locals']:
                            want.setdefault(norm(t), []).append(n_)
                        for x in ls:
                            have.setdefault(norm(qual_type(x)), []).append(x)
                        if {t: len(v) for t, v in want.items()} == {t: len(v) for t, v in have.items()}:
                            cur = {x.get('name') for x in ls}
                            for t, xs in have.items():
                                names_t = want[t]
                                if {x.get('name') for x in xs} == set(names_t):
                                    continue          # same names, only moved
                                for x, n_ in zip(xs, names_t):
                                    if x.get('name') != n_ and n_:
                                        r[x['id']] = n_
                    ren = r
                    break
            if not ren:
                continue
            # the result has to keep distinct what was distinct: a new name must not meet an unrenamed variable of that name
            final = {}
            clash = False
            for d in ps + ls:
                new = ren.get(d['id'], d.get('name'))
                final.setdefault(new, []).append(d['id'])
            # (the confirmed function may itself declare one name in several scopes: as many declarations may share it)
            mult = {}
            for n_, _t in list(alt['params']) + list(alt['locals']):
                mult[n_] = mult.get(n_, 0) + 1
            for new, ids in final.items():
                if len(ids) > max(1, mult.get(new, 1)) or (len(ids) > 1 and any(i not in ren for i in ids) and
                                                            len({d.get('name') for d in ps + ls if d['id'] in ids}) > 1 and mult.get(new, 1) < len(ids)):
                    clash = True
            if clash:
                # the parameters at least: they are matched by position and type alone
                ren = {i: n for i, n in ren.items() if i in {q['id'] for q in ps}}
                names_now = {d.get('name') for d in ls}
                if not ren or any(n in names_now for n in ren.values()):
                    continue
            back = {}
            for x in walk(f):
                k = x.get('kind')
                if k in ('ParmVarDecl', 'VarDecl') and x.get('id') in ren:
                    back[ren[x['id']]] = x.get('name')
                    x['name'] = ren[x['id']]
                elif k == 'DeclRefExpr':
                    rd = x.get('referencedDecl') or {}
                    if rd.get('id') in ren:
                        rd['name'] = ren[rd['id']]
            self.renamed[fname] = back

    # -- helpers -----------------------------------------------------------
    def const_value(self, n):
        """Integer value of a constant expression node, or None."""
        if not isinstance(n, dict):
            return None
        k = n.get('kind')
        if k == 'ConstantExpr':
            if 'value' in n:
                try:
                    return int(n['value'])
                except ValueError:
                    return None
            return self.const_value(n['inner'][0])
        if k == 'UnaryExprOrTypeTraitExpr' and n.get('name') == 'sizeof':
            at = n.get('argType')
            ts = at.get('qualType') if at else strip(n['inner'][0]).get('type', {}).get('qualType')
            tab = getattr(self, 'sizeofs', None) or {}
            return tab.get(ts)
        if k == 'IntegerLiteral':
            return int(n['value'])
        if k == 'CharacterLiteral':
            return int(n['value'])
        if k in ('ParenExpr', 'ImplicitCastExpr', 'CStyleCastExpr'):
            return self.const_value(n['inner'][0])
        if k == 'DeclRefExpr':
            rd = n.get('referencedDecl', {})
            if rd.get('kind') == 'EnumConstantDecl':
                return self.enums.get(rd['name'])
            return None
        if k == 'UnaryOperator':
            v = self.const_value(n['inner'][0])
            if v is None:
                return None
            op = n['opcode']
            if op == '-':
                return -v
            if op == '+':
                return v
            if op == '~':
                return ~v
            if op == '!':
                return int(not v)
            return None
        if k == 'BinaryOperator':
            a = self.const_value(n['inner'][0])
            b = self.const_value(n['inner'][1])
            if a is None or b is None:
                return None
            op = n['opcode']
            return fold_binop(op, a, b)
        return None

    def fn(self, name):
        return self.functions.get(name)

    def body(self, name):
        f = self.functions.get(name)
        if not f:
            return None
        for c in f.get('inner', []):
            if c.get('kind') == 'CompoundStmt':
                return c
        return None

    def params(self, name):
        f = self.functions.get(name) or self.fn_decls.get(name)
        return [c for c in f.get('inner', []) if c.get('kind') == 'ParmVarDecl']

    def functions_in_file(self, suffix):
        out = []
        for name, f in self.functions.items():
            fl = node_file(f)
            if fl and fl.endswith(suffix):
                out.append(name)
        return out


_names = None


def _known_names():
    global _names
    if _names is None:
        try:
            _names = json.load(open(os.path.join(os.path.dirname(os.path.abspath(__file__)), 'known_functions.json'))).get('names', {})
        except (OSError, ValueError):
            _names = {}
    return _names


def load(rel, variant=None, source_text=None):
    key = (rel, json.dumps(variant, sort_keys=True) if variant else None, source_text)
    if key not in _cache:
        p = front.dump_ast(rel, variant, source_text)
        _cache[key] = Unit(rel, p)
    return _cache[key]


def preload(rels, variant=None):
    front.dump_many(list(rels), variant)


# ---------------------------------------------------------------------------
# node helpers

def kind(n):
    return n.get('kind') if isinstance(n, dict) else None


def inner(n):
    return n.get('inner', []) if isinstance(n, dict) else []


def _loc_of(loc):
    if not loc:
        return None, None
    if 'expansionLoc' in loc:
        loc = loc['expansionLoc']
    elif 'spellingLoc' in loc:
        loc = loc['spellingLoc']
    return loc.get('file'), loc.get('line')


def node_loc(n):
    """(file, line) of a node, using the expansion location for macros."""
    if not isinstance(n, dict):
        return None, None
    if 'loc' in n and n['loc']:
        f, l = _loc_of(n['loc'])
        if f or l:
            return f, l
    r = n.get('range')
    if r:
        return _loc_of(r.get('begin'))
    return None, None


def node_file(n):
    return node_loc(n)[0]


def node_line(n):
    return node_loc(n)[1]


def where(n):
    f, l = node_loc(n)
    if f and f.startswith(front.REPO + '/'):
        f = f[len(front.REPO) + 1:]
    return '%s:%s' % (f, l)


def strip(n):
    """Strip parens, implicit casts and constant wrappers."""
    while isinstance(n, dict) and n.get('kind') in (
            'ParenExpr', 'ImplicitCastExpr', 'ConstantExpr'):
        n = n['inner'][0]
    return n


def strip_all_casts(n):
    while isinstance(n, dict) and n.get('kind') in (
            'ParenExpr', 'ImplicitCastExpr', 'ConstantExpr', 'CStyleCastExpr'):
        n = n['inner'][0]
    return n


def walk(n):
    """Pre-order iterator over all nodes below n (inclusive)."""
    stk = [n]
    while stk:
        x = stk.pop()
        if not isinstance(x, dict):
            continue
        yield x
        inn = x.get('inner')
        if inn:
            stk.extend(reversed(inn))


def qual_type(n):
    t = n.get('type', {})
    return t.get('desugaredQualType') or t.get('qualType') or ''


def callee_name(call):
    """Name of a directly called function, or None for indirect calls."""
    c = strip(call['inner'][0])
    if kind(c) == 'DeclRefExpr' and c.get('referencedDecl', {}).get('kind') == 'FunctionDecl':
        return c['referencedDecl']['name']
    return None


def member_chain(n):
    """For a MemberExpr chain return list of names from the root object outward,
    root first: p->memory.access.m16.read -> ['p','memory','access','m16','read'].
    ArraySubscript elements are rendered as '[]'."""
    names = []
    n = strip_all_casts(n)
    while True:
        k = kind(n)
        if k == 'MemberExpr':
            names.append(n['name'])
            n = strip_all_casts(n['inner'][0])
        elif k == 'ArraySubscriptExpr':
            names.append('[]')
            n = strip_all_casts(n['inner'][0])
        elif k == 'UnaryOperator' and n.get('opcode') in ('*', '&'):
            n = strip_all_casts(n['inner'][0])
        elif k == 'DeclRefExpr':
            names.append(n['referencedDecl']['name'])
            break
        else:
            names.append('?')
            break
    return list(reversed(names))


def calls_in(n):
    return [x for x in walk(n) if kind(x) == 'CallExpr']


def src_text(n, maxlen=120):
    """Source text of a node from its range offsets (for reports only)."""
    r = n.get('range')
    if not r:
        return ''
    b, e = r.get('begin', {}), r.get('end', {})
    if 'expansionLoc' in b:
        b = b['expansionLoc']
    if 'expansionLoc' in e:
        e = e['expansionLoc']
    f = b.get('file')
    try:
        with open(f, 'rb') as fh:
            data = fh.read()
        s = data[b['offset']: e['offset'] + e.get('tokLen', 1)].decode('utf8', 'replace')
        s = ' '.join(s.split())
        return s[:maxlen]
    except Exception:
        return ''


def fold_binop(op, a, b):
    """C-like integer folding on unbounded ints (callers truncate)."""
    if op == '+':
        return a + b
    if op == '-':
        return a - b
    if op == '*':
        return a * b
    if op == '<<':
        return a << b if 0 <= b < 128 else None
    if op == '>>':
        return a >> b if 0 <= b < 128 else None
    if op == '&':
        return a & b
    if op == '|':
        return a | b
    if op == '^':
        return a ^ b
    if op == '/':
        return None if b == 0 else (abs(a) // abs(b)) * (1 if (a >= 0) == (b >= 0) else -1)
    if op == '%':
        return None if b == 0 else (abs(a) % abs(b)) * (1 if a >= 0 else -1)
    if op == '==':
        return int(a == b)
    if op == '!=':
        return int(a != b)
    if op == '<':
        return int(a < b)
    if op == '>':
        return int(a > b)
    if op == '<=':
        return int(a <= b)
    if op == '>=':
        return int(a >= b)
    if op == '&&':
        return int(bool(a) and bool(b))
    if op == '||':
        return int(bool(a) or bool(b))
    return None


def init_fields(u, var):
    """{dotted field path: constant | ('ref', name) | None} of the initialiser of global `var` (struct/union, nested).
    Field names come from the record declarations (struct InitListExprs list their fields in declaration order, a union
    InitListExpr names its active member)."""
    g = u.globals.get(var)
    if g is None or not g.get('inner'):
        return None
    out = {}

    def rec_of(qt):
        qt_raw = qt or ''
        qt = qt_raw.replace('const ', '').replace('struct ', '').replace('union ', '').strip()
        if qt in u.records:
            return u.records[qt]
        td = getattr(u, 'typedefs', {}).get(qt)
        if td:
            return rec_of(td)
        import re as _re
        m = _re.search(r'\((?:unnamed|anonymous)(?: struct| union)? at (.*):(\d+):(\d+)\)', qt_raw)
        if m:
            cache = u.__dict__.setdefault('_anon_records', None)
            if cache is None:
                cache = {}
                for x in walk(u.root):
                    if kind(x) == 'RecordDecl' and not x.get('name'):
                        loc = x.get('loc', {})
                        loc = loc.get('expansionLoc') or loc
                        cache[(loc.get('line'), loc.get('col'))] = x
                u.__dict__['_anon_records'] = cache
            return cache.get((int(m.group(2)), int(m.group(3))))
        return None

    def walk_init(n, prefix, qt):
        n0 = strip(n)
        k = kind(n0)
        if k == 'InitListExpr':
            if n0.get('field'):
                fld = n0['field']
                walk_init(inner(n0)[0], prefix + [fld.get('name')], fld.get('type', {}).get('qualType')) if inner(n0) else None
                return
            tq = n0.get('type', {}).get('desugaredQualType') or n0.get('type', {}).get('qualType') or ''
            if tq.rstrip().endswith(']'):
                for i_, c in enumerate(inner(n0)):
                    walk_init(c, prefix + ['[%d]' % i_], None)
                return
            r = rec_of(tq)
            fields = [f for f in inner(r) if f.get('kind') == 'FieldDecl'] if r else []
            for f, c in zip(fields, inner(n0)):
                walk_init(c, prefix + [f.get('name')], f.get('type', {}).get('qualType'))
            return
        if k == 'ImplicitValueInitExpr':
            out['.'.join(prefix)] = 0
            return
        v = u.const_value(n0)
        if v is not None:
            out['.'.join(prefix)] = v
            return
        nn = strip_all_casts(n0)
        if kind(nn) == 'UnaryOperator' and nn.get('opcode') == '&':
            nn = strip_all_casts(nn['inner'][0])
        if kind(nn) == 'DeclRefExpr':
            out['.'.join(prefix)] = ('ref', nn['referencedDecl'].get('name'))
            return
        out['.'.join(prefix)] = None
    walk_init(g['inner'][0], [], qual_type(g))
    return out
