#!/usr/bin/env python3
"""refactor_tool.py import <property> <agent worktree> [tag]
      - copies <worktree>/REFACTOR/{k.diff,README.md} into refactors/<property>-<k>/, confirms in a fresh scratch
        worktree of /repo that the patch applies, builds without new warnings and passes the whole test suite, then
        runs ALL checks against a scratch copy with the patch applied.  A behaviour-preserving rewrite has to leave every
        check at exit 0: exit 1 is a false alarm, exit 2 an analysis that lost its footing.
   refactor_tool.py recheck [ids...]   - re-run the checks against the kept rewrites (after an engine change)
   refactor_tool.py table              - one line per rewrite"""
import json, os, shutil, sys, tempfile
import seed_tool
from seed_tool import sh, run_checks

HERE = os.path.dirname(os.path.abspath(__file__))
RF = os.path.join(HERE, 'refactors')


def verify(patch):
    wt = tempfile.mkdtemp(prefix='rfverify-')
    os.rmdir(wt)
    out = {}
    rc, o = sh('git -C /repo worktree add --detach %s HEAD' % wt)
    try:
        if rc != 0:
            return {'error': o[-300:]}
        rc, o = sh('git -C %s apply %s' % (wt, patch))
        out['patch_applies'] = rc == 0
        if rc != 0:
            out['apply_error'] = o[-300:]
            return out
        rc, o = sh('cmake -G Ninja -S %s -B %s/_build >/dev/null && cmake --build %s/_build 2>&1' % (wt, wt, wt))
        out['build'] = rc
        out['warnings'] = o.count('warning:')
        rc, o = sh('ctest --test-dir %s/_build -j8 2>&1 | tail -4' % wt)
        out['ctest'] = '100% tests passed' in o
        out['confirmed'] = bool(out['build'] == 0 and out['ctest'])
        return out
    finally:
        sh('git -C /repo worktree remove --force %s' % wt)
        shutil.rmtree(wt, ignore_errors=True)


def show(rid, res):
    alarms = [k for k, r in res.items() if isinstance(r, dict) and r.get('exit') == 1]
    broken = [k for k, r in res.items() if isinstance(r, dict) and r.get('exit') not in (0, 1, None)]
    print('%-12s alarms=%s broken=%s' % (rid, alarms, broken), flush=True)
    for k, r in res.items():
        if isinstance(r, dict):
            for x in (r.get('reports', []) + r.get('broken', []))[:3]:
                print('     ', k, x[:260])
    if 'error' in res:
        print('     ', res['error'])


def main():
    cmd = sys.argv[1]
    os.makedirs(RF, exist_ok=True)
    if cmd == 'import':
        pid, wt = sys.argv[2:4]
        tag = sys.argv[4] if len(sys.argv) > 4 else ''
        src = os.path.join(wt, 'REFACTOR')
        for f in sorted(os.listdir(src)):
            if not f.endswith('.diff'):
                continue
            rid = '%s-%s%s' % (pid, tag, f[:-5])
            d = os.path.join(RF, rid)
            os.makedirs(d, exist_ok=True)
            shutil.copy(os.path.join(src, f), os.path.join(d, 'patch.diff'))
            if os.path.exists(os.path.join(src, 'README.md')):
                shutil.copy(os.path.join(src, 'README.md'), os.path.join(d, 'README.md'))
            v = verify(os.path.join(d, 'patch.diff'))
            res = run_checks(os.path.join(d, 'patch.diff')) if v.get('confirmed') else {}
            meta = {'id': rid, 'property': pid, 'origin': 'sub-agent given only the property text and a scratch worktree; asked for a behaviour-preserving rewrite',
                    'verification': v, 'checks_not_silent': res,
                    'silent': bool(v.get('confirmed')) and not res}
            json.dump(meta, open(os.path.join(d, 'meta.json'), 'w'), indent=1)
            print(rid, 'verify:', json.dumps(v))
            show(rid, res)
    elif cmd == 'recheck':
        ids = sys.argv[2:] or sorted(os.listdir(RF))
        bad = 0

        def one(rid):
            d = os.path.join(RF, rid)
            mp = os.path.join(d, 'meta.json')
            if not os.path.exists(mp):
                return rid, None
            meta = json.load(open(mp))
            if meta.get('judged') == 'not-equivalent':
                return rid, None
            patch = os.path.join(d, 'patch-rebased.diff')
            if not os.path.exists(patch):
                patch = os.path.join(d, 'patch.diff')
            res = run_checks(patch)
            meta['checks_not_silent'] = res
            meta['silent'] = not res
            json.dump(meta, open(mp, 'w'), indent=1)
            return rid, res
        from concurrent.futures import ThreadPoolExecutor
        with ThreadPoolExecutor(max_workers=3) as ex:
            for rid, res in ex.map(one, ids):
                if res is None:
                    continue
                show(rid, res)
                bad += bool(res)
        print('refactors: %d not silent' % bad)
        return 1 if bad else 0
    elif cmd == 'table':
        for rid in sorted(os.listdir(RF)):
            mp = os.path.join(RF, rid, 'meta.json')
            if os.path.exists(mp):
                m = json.load(open(mp))
                print(rid, 'silent' if m.get('silent') else m.get('judged', 'NOT SILENT'), m.get('note', ''))
    return 0


if __name__ == '__main__':
    sys.exit(main())
