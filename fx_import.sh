#!/bin/sh
# ./fx_import.sh <n>   - import the corrected variant of agent worktree /tmp/wt-fix<n> as refactors/FX-<seed id>/ (development aid)
n=$1
sid=$(awk -v n=$n '$1==n{print $2}' /tmp/agents/fix.map)
wt=/tmp/wt-fix$n
[ -f $wt/FIXED/patch.diff ] || { echo "$n $sid: no patch (NOT-APPLICABLE?)"; grep -il "NOT-APPLICABLE" $wt/FIXED/README.md 2>/dev/null; exit 0; }
mkdir -p $wt/REFACTOR; rm -f $wt/REFACTOR/*.diff
# the agent's tree may lag behind /repo: take the diff of its worktree against its own HEAD
git -C $wt diff HEAD -- src include > $wt/REFACTOR/$sid.diff
[ -s $wt/REFACTOR/$sid.diff ] || cp $wt/FIXED/patch.diff $wt/REFACTOR/$sid.diff
cp $wt/FIXED/README.md $wt/REFACTOR/README.md 2>/dev/null
cd /verif && ./refactor_tool.py import FX $wt "" 2>&1 | tail -8
python3 - "$sid" <<'PY'
import json,sys,os
p='/verif/refactors/FX-%s/meta.json'%sys.argv[1]
if os.path.exists(p):
    m=json.load(open(p)); m['origin']='corrected variant of seeded/%s: the same design idea made behaviour preserving by a sub-agent (differential harness against HEAD), prompt seeded/agent_prompt_corrected.py'%sys.argv[1]
    json.dump(m,open(p,'w'),indent=1)
PY
