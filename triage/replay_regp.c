#include <stdio.h>
#include <stdlib.h>
#include <string.h>
#include <ufw/register-protocol.h>
#include <ufw/endpoints.h>
#include <ufw/byte-buffer.h>
#include <ufw/compat/errno.h>
#include <ufw/variable-length-integer.h>

static int allocs, frees;
static int my_alloc(void *d, void **m, size_t n){ (void)d; *m = malloc(n); allocs++; return *m ? 0 : -ENOMEM; }
static void my_free(void *d, void *m){ (void)d; frees++; free(m); }
static BlockAllocator ba = MAKE_GENERIC_BLOCKALLOC(NULL, my_alloc, my_free, 128);

static int memcalls;
static RPBlockAccess rd16(uint32_t a, size_t n, uint16_t *buf){ memcalls++; memset(buf, 0x5a, n * 2); RPBlockAccess r = { RP_RESP_ACK, a }; return r; }
static RPBlockAccess wr16(uint32_t a, size_t n, const uint16_t *buf){ (void)buf; (void)n; memcalls++; RPBlockAccess r = { RP_RESP_ACK, a }; return r; }
static RPBlockAccess rdio(uint32_t a, size_t n, uint16_t *buf){ (void)n;(void)buf; memcalls++; RPBlockAccess r = { RP_RESP_EIO, a }; return r; }

static unsigned char in[1024], out[1024];
static ByteBuffer inb, outb; static Source src; static Sink snk;
static void setup(RegP *p, RPEndpointType t, size_t inlen)
{
    regp_init(p); regp_use_allocator(p, &ba);
    byte_buffer_use(&inb, in, inlen ? inlen : 1); if (!inlen) inb.used = 0;
    byte_buffer_space(&outb, out, sizeof out);
    source_from_buffer(&src, &inb); sink_to_buffer(&snk, &outb);
    regp_use_channel(p, t, src, snk);
    regp_use_memory16(p, rd16, wr16);
    memcalls = allocs = frees = 0;
}
int main(int argc, char **argv)
{
    const char *w = argc > 1 ? argv[1] : "";
    RegP p; RPMaybeFrame mf;
    if (!strcmp(w, "d8")) {
        in[0] = 0xc0; setup(&p, RP_EP_SERIAL, 1);
        printf("D8: serial empty frame (C0)\n"); fflush(stdout);
        int rc = regp_recv(&p, &mf);
        printf("D8: rc %d error.id %d\n", rc, mf.error.id);
    }
    if (!strcmp(w, "d6")) {
        /* emit an EIO response on TCP, then feed it back */
        RegP q; regp_init(&q); ByteBuffer wb; byte_buffer_space(&wb, in, sizeof in); Sink s2; sink_to_buffer(&s2, &wb);
        regp_use_channel(&q, RP_EP_TCP, source_empty, s2);
        RPFrame f; memset(&f, 0, sizeof f); f.header.type = RP_FRAME_READ_REQUEST; f.header.sequence = 7; f.header.address = 0x100;
        regp_resp_eio(&q, &f);
        setup(&p, RP_EP_TCP, wb.used);
        int rc = regp_recv(&p, &mf);
        printf("D6: own EIO response received: rc %d error.id %d (EBADMSG=%d) (expect 0)\n", rc, mf.error.id, EBADMSG);
        regp_free(&p, mf.frame);
    }
    if (!strcmp(w, "d7")) {
        /* TCP read request, 16 bit, 30 words: header 12 octets, varint prefix 12 */
        unsigned char fr[] = { 12, 0x01,0x00, 0x00,0x01, 0,0,0,0, 0,0,0,30 };
        memcpy(in, fr, sizeof fr); setup(&p, RP_EP_TCP, sizeof fr);
        int rc = regp_recv(&p, &mf);
        printf("D7: recv rc %d err %d; processing 30-word read with 128-octet block\n", rc, mf.error.id); fflush(stdout);
        rc = regp_process(&p, &mf);
        printf("D7: process rc %d memcalls %d\n", rc, memcalls);
        regp_free(&p, mf.frame);
    }
    if (!strcmp(w, "d5")) {
        /* TCP write request 16-bit, options = WORD16|PLCRC (no HDCRC), blocksize 1, bogus plcrc */
        unsigned char fr[] = { 16, 0x05,0x20, 0x00,0x01, 0,0,0,0x40, 0,0,0,1, 0xde,0xad, 0x12,0x34 };
        memcpy(in, fr, sizeof fr); setup(&p, RP_EP_TCP, sizeof fr);
        int rc = regp_recv(&p, &mf);
        printf("D5: frame declaring payload CRC (wrong value): recv rc %d error.id %d (EPROTO=%d expected)\n", rc, mf.error.id, EPROTO);
        rc = regp_process(&p, &mf);
        printf("D5: process -> memcalls %d (expect 0)\n", memcalls);
        regp_free(&p, mf.frame);
    }
    if (!strcmp(w, "d9")) {
        /* TCP frame of 200 octets: header (write req 8-bit, blocksize 188) + 188 payload */
        size_t k = 0; in[k++] = 0xc8; in[k++] = 0x01; /* varint 200 */
        unsigned char hd[12] = { 0x00,0x20, 0,1, 0,0,0,0, 0,0,0,188 }; memcpy(in + k, hd, 12); k += 12; memset(in + k, 0x11, 188); k += 188;
        setup(&p, RP_EP_TCP, k);
        int rc = regp_recv(&p, &mf);
        printf("D9: 200-octet frame into 128-octet block: rc %d error.id %d (ENOMEM=%d expected) framesize %zu reply octets %zu\n", rc, mf.error.id, ENOMEM, mf.error.framesize, outb.used);
        rc = regp_process(&p, &mf);
        printf("D9: process -> memcalls %d (expect 0)\n", memcalls);
        regp_free(&p, mf.frame);
    }
    if (!strcmp(w, "d11")) {
        /* TCP: prefix says 12 but only 5 octets follow -> source runs dry (-ENODATA) after allocation */
        unsigned char fr[] = { 12, 0x01,0x00, 0x00,0x01, 0 };
        memcpy(in, fr, sizeof fr); setup(&p, RP_EP_TCP, sizeof fr);
        int rc = regp_recv(&p, &mf);
        printf("D11: truncated stream: rc %d frame %p allocs %d frees %d (expect frees==allocs or frame handed out)\n", rc, (void*)mf.frame, allocs, frees);
    }
    if (!strcmp(w, "eio")) {
        unsigned char fr[] = { 12, 0x01,0x00, 0x00,0x01, 0,0,0,0, 0,0,0,1 };
        memcpy(in, fr, sizeof fr); setup(&p, RP_EP_TCP, sizeof fr); regp_use_memory16(&p, rdio, wr16);
        regp_recv(&p, &mf); int rc = regp_process(&p, &mf);
        printf("EIO backend: rc %d reply %zu octets: ", rc, outb.used); for (size_t i = 0; i < outb.used; i++) printf("%02x ", out[i]); printf("\n");
        regp_free(&p, mf.frame);
    }
    return 0;
}
