/* Replay for C07.b (D31): on a serial channel a 16-bit frame that was EXTENDED by one octet (an odd number of payload
 * octets) passes the size plausibility test, because the receiver compares the block size with payload.size / 2 and
 * the checksum covers payload.size / 2 words: the write request is executed against memory and acknowledged, the
 * extended read request is answered.  C07: "a frame ... which was truncated or extended, is never executed against
 * memory and never acknowledged".
 *   cc -I/repo/include -I/repo/_build/include replay_odd_octet_extension.c /repo/_build/libufw.a -o r && ./r */
#include <stdio.h>
#include <string.h>
#include <ufw/endpoints.h>
#include <ufw/register-protocol.h>

static unsigned char w_l2r[512], w_r2l[512];
static InstrumentableBuffer l2r, r2l;
static Source l2r_source, r2l_source;
static Sink l2r_sink, r2l_sink;
static RegP local, remote;
static uint16_t mem[8];
static int reads, writes;

static RPBlockAccess rd(uint32_t a, size_t n, uint16_t *b)
{
    RPBlockAccess rv = RPB_BLOCK_ACCESS_INIT;
    reads++;
    if (a + n > 8) { rv.status = RP_RESP_EUNMAPPED; rv.address = 8; return rv; }
    memcpy(b, mem + a, n * 2); return rv;
}
static RPBlockAccess wr(uint32_t a, size_t n, const uint16_t *b)
{
    RPBlockAccess rv = RPB_BLOCK_ACCESS_INIT;
    writes++;
    if (a + n > 8) { rv.status = RP_RESP_EUNMAPPED; rv.address = 8; return rv; }
    memcpy(mem + a, b, n * 2); return rv;
}

static void setup(void)
{
    regp_init(&local); regp_init(&remote);
    byte_buffer_space(&l2r.buffer, w_l2r, sizeof w_l2r);
    byte_buffer_space(&r2l.buffer, w_r2l, sizeof w_r2l);
    instrumentable_set_trace(&l2r, false); instrumentable_set_trace(&r2l, false);
    instrumentable_source(&l2r_source, &l2r); instrumentable_sink(&l2r_sink, &l2r);
    instrumentable_source(&r2l_source, &r2l); instrumentable_sink(&r2l_sink, &r2l);
    regp_use_memory16(&local, rd, wr);
    regp_use_channel(&local, RP_EP_SERIAL, r2l_source, l2r_sink);
    regp_use_channel(&remote, RP_EP_SERIAL, l2r_source, r2l_sink);
    memset(mem, 0, sizeof mem);
    reads = writes = 0;
}

/* one extra octet in front of the closing SLIP END */
static void extend(void)
{
    ByteBuffer *b = &r2l.buffer;        /* remote -> local */
    b->data[b->used - 1u] = 0x55u;
    b->data[b->used] = 0xc0u;
    b->used++;
}

int main(void)
{
    int bad = 0;
    RPMaybeFrame mf;
    uint16_t data[2] = { 0x1234, 0x5678 };

    setup();
    regp_req_write16(&remote, 2, 2, data);
    extend();
    int rc = regp_recv(&local, &mf);
    if (rc == 0 && mf.frame != NULL && mf.error.id == 0) {
        regp_process(&local, &mf);
    }
    printf("extended write request: recv rc=%d error.id=%d memory writes=%d mem[2]=0x%04x reply octets=%zu\n", rc, mf.error.id,
           writes, mem[2], l2r.buffer.used);
    bad += (writes != 0 || mem[2] != 0);
    if (mf.frame != NULL) { regp_free(&local, mf.frame); }

    setup();
    regp_req_read16(&remote, 2, 2);
    extend();
    rc = regp_recv(&local, &mf);
    if (rc == 0 && mf.frame != NULL && mf.error.id == 0) {
        regp_process(&local, &mf);
    }
    printf("extended read request:  recv rc=%d error.id=%d memory reads=%d\n", rc, mf.error.id, reads);
    bad += (reads != 0);
    if (mf.frame != NULL) { regp_free(&local, mf.frame); }

    puts(bad ? "FAIL: a frame extended by one octet is executed against memory" : "PASS");
    return bad != 0;
}
