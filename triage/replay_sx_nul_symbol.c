/* Replay for C20.h (D33): issyminitch() tests membership with strchr(table, c), which also finds the table's terminator:
 * the NUL octet counts as a symbol character.  A length-delimited input containing NUL is read as a symbol although it is
 * no expression of the grammar ("input that is not a complete expression yields an error status with no tree").
 *   cc -I/repo/include -I/repo/_build/include replay_sx_nul_symbol.c /repo/_build/libufw-sx.a -o r && ./r */
#include <stdio.h>
#include <string.h>
#include <ufw/sx.h>

static int try(const char *what, const char *s, size_t n)
{
    struct sx_parse_result r = sx_parse_stringn(s, n);
    printf("%-10s status=%d position=%zu node=%s", what, (int)r.status, (size_t)r.position, r.node ? "yes" : "no");
    if (r.node != NULL && sx_is_symbol(r.node)) {
        printf(" symbol=\"%s\"", r.node->data.symbol);
    }
    puts("");
    const int bad = (r.status == SXS_SUCCESS);
    if (r.node != NULL) {
        sx_destroy(&r.node);
    }
    return bad;
}

int main(void)
{
    int bad = 0;
    bad += try("\"\\0\"", "\0", 1);
    bad += try("\"ab\\0cd\"", "ab\0cd", 5);
    bad += try("\"(\\0)\"", "(\0)", 3);
    puts(bad ? "FAIL: input containing a NUL octet is accepted" : "PASS");
    return bad != 0;
}
