/* C17 finding 1: the "try once more on -ENOMEM" step of sts_n()/sts_drain()
 * pulls a fresh chunk out of the source after the previous one was taken from
 * the source and refused by the sink.  The refused chunk is gone; if the next
 * (shorter) chunk fits, it is appended behind the hole, and at the source's
 * end sts_drain() reports the regular -ENODATA although octets were dropped.
 *
 * Only library endpoints are used: source_from_buffer() (plus a scratch buffer
 * offered through the public ext.getbuffer member) and sink_to_buffer(). */
#include <stdio.h>
#include <string.h>
#include <errno.h>
#include <ufw/endpoints.h>

static unsigned char scratch[4];
static ByteBuffer getscratch(Source *s)
{
    (void)s;
    ByteBuffer b = BYTE_BUFFER(scratch, sizeof scratch);   /* window [0,4) */
    return b;
}

static int prefix(const ByteBuffer *b)
{
    for (size_t i = 0; i < b->used; ++i) if (b->data[i] != i + 1) return 0;
    return 1;
}

static void show(const char *what, ssize_t rc, const ByteBuffer *b)
{
    printf("  %s returned %zd; sink holds %zu octet(s):", what, rc, b->used);
    for (size_t i = 0; i < b->used; ++i) printf(" %u", b->data[i]);
    printf("\n");
}

int main(void)
{
    int bad = 0;
    unsigned char stream[6] = { 1, 2, 3, 4, 5, 6 };
    unsigned char store[3];

    for (int drain = 0; drain < 2; ++drain) {
        ByteBuffer in = BYTE_BUFFER(stream, sizeof stream);
        ByteBuffer out = BYTE_BUFFER_EMPTY(store, sizeof store);
        Source src; Sink snk;
        source_from_buffer(&src, &in);
        src.ext.getbuffer = getscratch;
        sink_to_buffer(&snk, &out);

        printf("stream 1..6, source scratch window of 4, sink_to_buffer with room for 3; %s\n",
               drain ? "sts_drain(src, snk)" : "sts_n(src, snk, 6)");
        const ssize_t rc = drain ? sts_drain(&src, &snk) : sts_n(&src, &snk, 6);
        show(drain ? "sts_drain" : "sts_n", rc, &out);
        printf("  property: the call fails with the sink's -ENOMEM (%d) and the sink holds a prefix of 1..6\n", -ENOMEM);
        if (!prefix(&out)) { printf("  VIOLATION: sink content is no prefix of the stream (octets 1..4 dropped, 5 6 stored)\n"); bad = 1; }
        if (rc != -ENOMEM) { printf("  VIOLATION: result is %zd%s\n", rc, rc == -ENODATA ? " = -ENODATA, the regular 'source drained' result" : ""); bad = 1; }
    }

    /* the plain variant: nothing fits, everything is pulled and dropped, drain says "done" */
    {
        ByteBuffer in = BYTE_BUFFER(stream, 4);
        ByteBuffer out = BYTE_BUFFER_EMPTY(store, 3);
        Source src; Sink snk;
        source_from_buffer(&src, &in);
        src.ext.getbuffer = getscratch;
        sink_to_buffer(&snk, &out);
        printf("stream 1..4, scratch window 4, sink room 3; sts_drain(src, snk)\n");
        const ssize_t rc = sts_drain(&src, &snk);
        show("sts_drain", rc, &out);
        if (rc == -ENODATA && out.used != 4) {
            printf("  VIOLATION: -ENODATA (everything up to the source's end moved) but the sink got %zu of 4 octets\n", out.used);
            bad = 1;
        }
    }
    return bad;
}
