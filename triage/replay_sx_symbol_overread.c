/* Replay for C20.g: a symbol in a length-delimited input without terminator is copied with
 * strlcpy(), which keeps reading the source until it finds a NUL.
 *   clang -g -fsanitize=address -I/repo/include -I/repo/_build/include replay_sx_symbol_overread.c \
 *         /repo/src/sx.c /repo/src/compat/strlcpy.c -o r && ./r          (ASan: heap-buffer-overflow in strlcpy) */
#include <stdio.h>
#include <stdlib.h>
#include <string.h>
#include <ufw/sx.h>

int main(void)
{
    char *in = malloc(3);
    memcpy(in, "abc", 3);                       /* exact size, no terminator */
    struct sx_parse_result r = sx_parse_stringn(in, 3);
    printf("status=%d position=%zu symbol=%s\n", r.status, r.position,
           (r.node && r.node->type == SXT_SYMBOL) ? r.node->data.symbol : "?");
    sx_destroy(&r.node);
    free(in);
    puts("PASS (no over-read)");
    return 0;
}
