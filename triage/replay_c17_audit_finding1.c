/* C17 finding 1: per-octet plumbing (sts_cbc and everything built on it:
 * sts_n_cbc, sts_drain_cbc, and sts_atmost/sts_n/sts_drain for endpoints
 * without the getbuffer extension) mishandles ZERO-LENGTH driver returns.
 *
 *  (a) source returns 0 ("nothing right now, retry"): sts_cbc treats it as
 *      success and puts its UNINITIALISED local octet into the sink.
 *  (b) sink returns 0: the octet already taken from the source is dropped;
 *      sts_n_cbc counts it as moved, sts_n/sts_drain fetch the NEXT octet,
 *      leaving a hole in what reaches the sink.
 */
#include <stdio.h>
#include <string.h>
#include <errno.h>
#include <ufw/endpoints.h>

struct src { const unsigned char *s; size_t len, pos; int zero_at_call, calls; };
struct snk { unsigned char out[16]; size_t cnt; int zero_at_call, calls; };

static ssize_t csrc(void *d, void *buf, size_t n) {
    struct src *s = d;
    if (++s->calls == s->zero_at_call) return 0;          /* zero-length return */
    if (s->pos == s->len) return -ENODATA;
    size_t m = s->len - s->pos; if (m > n) m = n;
    memcpy(buf, s->s + s->pos, m); s->pos += m; return (ssize_t)m;
}
static ssize_t csnk(void *d, const void *buf, size_t n) {
    struct snk *k = d;
    if (++k->calls == k->zero_at_call) return 0;          /* zero-length return */
    memcpy(k->out + k->cnt, buf, n); k->cnt += n; return (ssize_t)n;
}
static void dump(const char *t, const unsigned char *p, size_t n) {
    printf("%s", t); for (size_t i = 0; i < n; i++) printf(" %02x", p[i]); printf("\n");
}

static const unsigned char stream[6] = { 0xa1, 0xa2, 0xa3, 0xa4, 0xa5, 0xa6 };

static int check(const char *what, ssize_t r, size_t N, struct src *S, struct snk *K) {
    int bad = 0;
    printf("%s: returned %zd; source consumed %zu; sink holds %zu:", what, r, S->pos, K->cnt);
    dump("", K->out, K->cnt);
    if (memcmp(K->out, stream, K->cnt) != 0) { printf("  VIOLATION: sink content is not a prefix of the stream\n"); bad = 1; }
    if (r >= 0 && (K->cnt != N || S->pos != N)) { printf("  VIOLATION: success reported but not exactly %zu octets moved\n", N); bad = 1; }
    return bad;
}

int main(void) {
    int bad = 0; Source so; Sink si; ssize_t r;
    dump("stream:", stream, sizeof stream);
    printf("property: sts_n_cbc/sts_n(…, 4) deliver a1 a2 a3 a4, whatever zero-length returns occur\n\n");

    { /* (a) source says 0 on its 2nd call */
        struct src S = { stream, 6, 0, 2, 0 }; struct snk K; memset(&K, 0, sizeof K); memset(K.out, 0x5a, sizeof K.out);
        chunk_source_init(&so, csrc, &S); chunk_sink_init(&si, csnk, &K);
        r = sts_n_cbc(&so, &si, 4);
        bad |= check("(a) sts_n_cbc, source returns 0 on 2nd call", r, 4, &S, &K);
    }
    { /* (b) sink says 0 on its 2nd call, sts_n_cbc */
        struct src S = { stream, 6, 0, 0, 0 }; struct snk K; memset(&K, 0, sizeof K); K.zero_at_call = 2;
        chunk_source_init(&so, csrc, &S); chunk_sink_init(&si, csnk, &K);
        r = sts_n_cbc(&so, &si, 4);
        bad |= check("(b) sts_n_cbc, sink returns 0 on 2nd call", r, 4, &S, &K);
    }
    { /* (b') sink says 0 on its 2nd call, sts_n (no getbuffer extension -> sts_cbc) */
        struct src S = { stream, 6, 0, 0, 0 }; struct snk K; memset(&K, 0, sizeof K); K.zero_at_call = 2;
        chunk_source_init(&so, csrc, &S); chunk_sink_init(&si, csnk, &K);
        r = sts_n(&so, &si, 4);
        bad |= check("(b') sts_n, sink returns 0 on 2nd call", r, 4, &S, &K);
    }
    { /* (b'') drain */
        struct src S = { stream, 6, 0, 0, 0 }; struct snk K; memset(&K, 0, sizeof K); K.zero_at_call = 3;
        chunk_source_init(&so, csrc, &S); chunk_sink_init(&si, csnk, &K);
        r = sts_drain_cbc(&so, &si);
        printf("(b'') sts_drain_cbc, sink returns 0 on 3rd call: returned %zd; sink holds %zu:", r, K.cnt); dump("", K.out, K.cnt);
        if (K.cnt != 6 || memcmp(K.out, stream, 6)) { printf("  VIOLATION: drain did not deliver the whole stream in order\n"); bad = 1; }
    }
    printf("\n%s\n", bad ? "finding-1: DEFECT REPRODUCED" : "finding-1: not reproduced");
    return bad;
}
