/*
 * finding-1: flenp_buffer_to_sink_n() / flenp_buffer_encode_n() consume the
 * buffer although the frame was refused (or could not be emitted).
 *
 * C13: "... from its first n unread octets (advancing the buffer by n) ...
 *       lengths beyond the kind's maximum are refused before anything is
 *       emitted."
 * A refused call has emitted nothing, so it must not have taken the n octets
 * out of the buffer either: afterwards the caller cannot frame them any more
 * (e.g. split them into two frames or fall back to a wider prefix).
 */
#include <stdio.h>
#include <string.h>
#include <errno.h>
#include <sys/types.h>
#include <ufw/byte-buffer.h>
#include <ufw/endpoints.h>
#include <ufw/length-prefix.h>

static unsigned char mem[400], wire[600];

int
main(void)
{
    int bad = 0;
    for (size_t i = 0; i < sizeof mem; ++i) mem[i] = (unsigned char)i;

    /* 1. to a sink, length one beyond the maximum of the one-octet kind */
    ByteBuffer b, sb;
    Sink sink;
    byte_buffer_set(&b, mem, sizeof mem, 300, 0);      /* 300 unread octets */
    byte_buffer_space(&sb, wire, sizeof wire);
    sink_to_buffer(&sink, &sb);
    ssize_t rc = flenp_buffer_to_sink_n(LENP_OCTET, &sink, &b, 256);
    printf("flenp_buffer_to_sink_n(LENP_OCTET, n=256): rc=%zd, sink holds %zu octets, "
           "buffer offset %zu (was 0), unread %zu (was 300)\n",
           rc, sb.used, b.offset, byte_buffer_rest(&b));
    if (rc >= 0 || sb.used != 0) { printf("  unexpected: not refused\n"); bad = 1; }
    if (b.offset != 0) {
        printf("  DEFECT: refused, nothing emitted, but 256 octets were taken out of the buffer\n");
        /* what a caller's recovery now frames */
        rc = flenp_buffer_to_sink_n(LENP_OCTET, &sink, &b, 44);
        printf("  caller retries with what is left: rc=%zd, first payload octet on the wire "
               "0x%02x (octets 0x00..0xff of the data are lost)\n", rc, wire[1]);
        bad = 1;
    }

    /* 2. into a prefix object */
    LengthPrefixBuffer lpb;
    byte_buffer_set(&b, mem, sizeof mem, 300, 0);
    int irc = flenp_buffer_encode_n(LENP_OCTET, &lpb, &b, 256);
    printf("flenp_buffer_encode_n(LENP_OCTET, n=256): rc=%d, buffer offset %zu (was 0)\n",
           irc, b.offset);
    if (irc < 0 && b.offset != 0) {
        printf("  DEFECT: refused, but the buffer was advanced by %zu\n", b.offset);
        bad = 1;
    }

    /* 3. same with the sink refusing the very first octet (full destination) */
    byte_buffer_set(&b, mem, sizeof mem, 300, 0);
    byte_buffer_set(&sb, wire, 8, 8, 0);               /* no room at all */
    rc = flenp_buffer_to_sink_n(LENP_LE_16BIT, &sink, &b, 100);
    printf("flenp_buffer_to_sink_n(LENP_LE_16BIT, n=100) into a full sink: rc=%zd (-ENOMEM=%d), "
           "sink took %zu octets, buffer offset %zu (was 0)\n", rc, -ENOMEM, sb.used - 8, b.offset);
    if (rc < 0 && b.offset != 0) {
        printf("  DEFECT: nothing emitted, but 100 octets were taken out of the buffer\n");
        bad = 1;
    }

    printf(bad ? "FAIL\n" : "ok\n");
    return bad;
}
