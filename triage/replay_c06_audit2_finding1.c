/*
 * finding-1: serial transport - the tail of a frame that FAILED reception is
 * received, executed on the memory backend and acknowledged.
 *
 * regp_recv() creates a fresh RFC1055Context for every call.  When
 * rfc1055_decode() meets an invalid escape sequence it sets the context to
 * RFC1055_SEARCH_FOR_END ("skip the rest of this broken frame") and returns
 * -EILSEQ.  regp_recv() returns that error and throws the context away, so the
 * next regp_recv() starts decoding in the middle of the broken frame and takes
 * the remaining octets (up to the frame's END) for a frame of their own.
 *
 * History shown here: the peer sends exactly ONE frame, a write request for
 * address 0x100 whose payload is a memory image that happens to contain the
 * octets of a register-protocol frame (e.g. a log of recorded traffic).  One
 * bit of the line is flipped (0xdc -> 0x5c inside the escape sequence DB DC of
 * a payload octet 0xc0).  The frame fails reception (-EILSEQ) - and then the
 * device writes "EVIL" to address 0x2000 and acknowledges sequence number
 * 0x4242, neither of which anybody requested.
 *
 * C06: "a frame that failed reception never causes a memory access".
 */
#include <errno.h>
#include <stdint.h>
#include <stdio.h>
#include <string.h>

#include <ufw/endpoints.h>
#include <ufw/register-protocol.h>

static uint16_t crc_arc(const uint8_t *p, size_t n)
{
    uint16_t c = 0;
    for (size_t i = 0; i < n; i++) {
        c ^= p[i];
        for (int k = 0; k < 8; k++)
            c = (c & 1) ? (uint16_t)((c >> 1) ^ 0xA001) : (uint16_t)(c >> 1);
    }
    return c;
}

/* serial write request (8 bit semantics), header+payload checksum */
static size_t mk_write8(uint8_t *f, uint16_t seq, uint32_t addr,
                        const uint8_t *pl, uint32_t n)
{
    const uint16_t plcrc = crc_arc(pl, n);
    uint8_t h[14] = { 0x06, 0x20, seq >> 8, seq & 0xff,
                      addr >> 24, addr >> 16, addr >> 8, addr,
                      n >> 24, n >> 16, n >> 8, n,
                      plcrc >> 8, plcrc & 0xff };
    const uint16_t hdcrc = crc_arc(h, 14);
    memcpy(f, h, 12);
    f[12] = hdcrc >> 8; f[13] = hdcrc & 0xff;
    f[14] = plcrc >> 8; f[15] = plcrc & 0xff;
    memcpy(f + 16, pl, n);
    return 16 + n;
}

static size_t slip(uint8_t *w, const uint8_t *f, size_t n)
{
    size_t o = 0;
    for (size_t i = 0; i < n; i++) {
        if (f[i] == 0xc0) { w[o++] = 0xdb; w[o++] = 0xdc; }
        else if (f[i] == 0xdb) { w[o++] = 0xdb; w[o++] = 0xdd; }
        else w[o++] = f[i];
    }
    w[o++] = 0xc0;
    return o;
}

static uint8_t wire[256]; static size_t wn, wpos;
static int src(void *d, void *o)
{
    (void)d;
    if (wpos >= wn) return -ENODATA;
    *(uint8_t *)o = wire[wpos++];
    return 1;
}
static uint8_t out[256]; static size_t on;
static int snk(void *d, unsigned char c) { (void)d; out[on++] = c; return 1; }

static int accesses;
static RPBlockAccess rd(uint32_t a, size_t n, uint8_t *b)
{
    (void)b; accesses++;
    printf("    BACKEND: read  addr=0x%08x n=%zu\n", a, n);
    RPBlockAccess r = RPB_BLOCK_ACCESS_INIT; return r;
}
static RPBlockAccess wr(uint32_t a, size_t n, const uint8_t *b)
{
    accesses++;
    printf("    BACKEND: write addr=0x%08x n=%zu data=\"%.*s\"\n", a, n, (int)n, (const char *)b);
    RPBlockAccess r = RPB_BLOCK_ACCESS_INIT; return r;
}

int main(void)
{
    /* The embedded image: octets of a write request for 0x2000 */
    uint8_t inner[64];
    const size_t in = mk_write8(inner, 0x4242, 0x2000, (const uint8_t *)"EVIL", 4);

    /* The one frame the peer sends: write 0x100, payload = 0xc0 ++ image */
    uint8_t pl[80]; pl[0] = 0xc0; memcpy(pl + 1, inner, in);
    uint8_t outer[128];
    const size_t outn = mk_write8(outer, 0x0001, 0x100, pl, (uint32_t)(in + 1));
    wn = slip(wire, outer, outn);

    /* one flipped bit on the line: DB DC -> DB 5C */
    size_t hit = 0;
    for (size_t i = 0; i + 1 < wn; i++)
        if (wire[i] == 0xdb && wire[i + 1] == 0xdc) { hit = i + 1; break; }
    wire[hit] ^= 0x80;
    size_t ends = 0;
    for (size_t i = 0; i < wn; i++) ends += wire[i] == 0xc0;
    printf("wire: %zu octets, %zu END octet(s) => exactly one SLIP frame; "
           "bit 7 of octet %zu flipped (dc -> %02x)\n", wn, ends, hit, wire[hit]);

    RegP p;
    regp_init(&p);
    regp_use_memory8(&p, rd, wr);
    Source so; Sink si;
    octet_source_init(&so, src, NULL);
    octet_sink_init(&si, snk, NULL);
    regp_use_channel(&p, RP_EP_SERIAL, so, si);

    /* the documented server loop */
    for (int i = 0; i < 4 && wpos < wn; i++) {
        RPMaybeFrame mf;
        const int rc = regp_recv(&p, &mf);
        printf("  regp_recv #%d: rc=%d error.id=%d frame=%s (consumed %zu/%zu)\n",
               i + 1, rc, mf.error.id, mf.frame ? "yes" : "NULL", wpos, wn);
        if (rc < 0) {
            regp_free(&p, mf.frame);
            continue;               /* error_handling_here(): try again */
        }
        const int rc2 = regp_process(&p, &mf);
        printf("  regp_process: rc=%d\n", rc2);
        regp_free(&p, mf.frame);
    }
    printf("reply octets emitted: %zu:", on);
    for (size_t i = 0; i < on; i++) printf(" %02x", out[i]);
    printf("\n");

    printf("property demands: the only frame on the wire failed reception, so "
           "0 memory accesses\n");
    printf("observed        : %d memory access(es)\n", accesses);
    if (accesses != 0) {
        printf("FAIL: a frame that failed reception caused a memory access "
               "(and an acknowledgement for sequence 0x4242)\n");
        return 1;
    }
    printf("ok\n");
    return 0;
}
