/*
 * finding-1: flenp_buffer_to_sink_n() reports a wrong total (or a bogus
 * negative "error") for payload lengths n with prefix+n > INT_MAX, because it
 * stores the ssize_t result of flenp_memory_to_sink() in an `int`.
 *
 * C13: "... from its first n unread octets (advancing the buffer by n) ...
 * emits the length in the kind's encoding followed by exactly the designated
 * payload octets and reports the total", for lengths "from 1 to the kind's
 * maximum" (quantified over "kind maxima +-1"). The maximum of the 32-bit
 * kinds is 4294967295.
 */
#define _GNU_SOURCE
#include <sys/types.h>
#include <sys/mman.h>
#include <inttypes.h>
#include <stdio.h>
#include <string.h>
#include <ufw/byte-buffer.h>
#include <ufw/endpoints.h>
#include <ufw/length-prefix.h>

/* A chunk sink that keeps the first 8 octets and counts the rest, checking
 * that payload octets arrive from consecutive addresses. */
struct csink { unsigned char head[8]; uint64_t count; const unsigned char *next; int contiguous; };
static ssize_t csink_run(void *d, const void *data, size_t n)
{
    struct csink *s = d;
    const unsigned char *p = data;
    for (size_t i = 0; i < n && s->count + i < 8; i++) s->head[s->count + i] = p[i];
    if (s->count >= 4) { if (s->next != NULL && s->next != p) s->contiguous = 0; s->next = p + n; }
    s->count += n;
    return (ssize_t)n;
}

static int bad = 0;

static void run(LengthPrefixKind k, const char *kn, unsigned char *mem, uint64_t n, uint64_t plen)
{
    const uint64_t want = plen + n;
    struct csink cs; Sink sink; ByteBuffer b; ssize_t rc;

    /* sibling without _n, as a control */
    memset(&cs, 0, sizeof cs); cs.contiguous = 1; chunk_sink_init(&sink, csink_run, &cs);
    byte_buffer_set(&b, mem, n + 8, n + 8, 8);
    rc = flenp_buffer_to_sink(k, &sink, &b);
    printf("%s n=%" PRIu64 ": flenp_buffer_to_sink   (rest=n)      -> rc=%zd, sink received %" PRIu64 " octets (property: %" PRIu64 ")\n",
           kn, n, rc, cs.count, want);
    if (rc != (ssize_t)want || cs.count != want) { bad = 1; }

    memset(&cs, 0, sizeof cs); cs.contiguous = 1; chunk_sink_init(&sink, csink_run, &cs);
    byte_buffer_set(&b, mem, n + 16, n + 16, 8);         /* rest = n + 8 */
    rc = flenp_buffer_to_sink_n(k, &sink, &b, n);
    printf("%s n=%" PRIu64 ": flenp_buffer_to_sink_n (rest=n+8)    -> rc=%zd, sink received %" PRIu64 " octets, prefix %02x %02x %02x %02x, buffer offset advanced by %zu\n",
           kn, n, rc, cs.count, cs.head[0], cs.head[1], cs.head[2], cs.head[3], b.offset - 8);
    if (rc != (ssize_t)want) {
        printf("   VIOLATION: the frame was emitted completely, yet the reported total is %zd instead of %" PRIu64 "%s\n",
               rc, want, rc < 0 ? " (a negative value, i.e. an error code)" : "");
        bad = 1;
    }
}

int main(void)
{
    const size_t maplen = (size_t)4294967295u + 4096u;
    unsigned char *mem = mmap(NULL, maplen, PROT_READ | PROT_WRITE,
                              MAP_PRIVATE | MAP_ANONYMOUS | MAP_NORESERVE, -1, 0);
    if (mem == MAP_FAILED) { perror("mmap"); return 2; }

    run(LENP_LE_32BIT, "LE_32BIT", mem, 4294967295u, 4);   /* kind maximum        */
    run(LENP_BE_32BIT, "BE_32BIT", mem, 4294967294u, 4);   /* kind maximum - 1    */
    run(LENP_LE_32BIT, "LE_32BIT", mem, 2147483644u, 4);   /* 4 + n == INT_MAX+1  */
    run(LENP_LE_32BIT, "LE_32BIT", mem, 2147483643u, 4);   /* 4 + n == INT_MAX: ok */
    run(LENP_VARIABLE, "VARIABLE", mem, 2147483643u, 5);   /* 5 + n == INT_MAX+1  */

    printf(bad ? "finding-1: DEFECT REPRODUCED\n" : "finding-1: not reproduced\n");
    return bad;
}
