/* finding-1: the serial channel's "header checksum is mandatory" test (fix
 * 65433e5) is only applied on the ordinary path of regp_recv(). The two early
 * paths (frame larger than the receive block -> ERXOVERFLOW, no block ->
 * EBUSY) go through send_early_response(), which has no such test; and on the
 * ordinary path the test is applied after the payload tests, so a payload
 * fault wins over the header fault. */
#include "audit_common.h"

int main(void)
{
    int failed = 0;
    uint8_t pl[40], f[128], w[256];
    for (size_t i = 0; i < sizeof pl; i++) pl[i] = 0xa0 + i;

    printf("== A: serial, WRITE-REQUEST without any checksum (options=0), 32 octets, receive room 16 octets\n");
    size_t n = build(f, 2, 0, 0, 0x1234, 0x10, 20, pl, 20);
    hex("   frame", f, n);
    size_t wn = slip_enc(f, n, w);
    serial_setup(w, wn, 16); out_seen = 0; exec_count = 0;
    struct answer a = step(NULL, NULL);
    printf("   demanded: META EHEADERENC (type 15, meta 1): 5.1 \"The WITH-HEADER-CRC option bit shall be enabled\"\n");
    if (!(a.n == 1 && a.type == 15 && a.code == 1)) { printf("   => VIOLATION: the unprotected header was taken at face value and answered\n"); failed |= 1; }

    printf("== A': the very same frame with enough room (64 octets) - the ordinary path\n");
    serial_setup(w, wn, 64); out_seen = 0;
    a = step(NULL, NULL);
    if (a.n == 1 && a.type == 15 && a.code == 1) printf("   ordinary path says META EHEADERENC: the two paths disagree about the same octets\n");

    printf("== B: same frame, block allocation fails (EBUSY path)\n");
    serial_setup(w, wn, 64); out_seen = 0; alloc_fail = 1;
    a = step(NULL, NULL); alloc_fail = 0;
    printf("   demanded: META EHEADERENC\n");
    if (!(a.n == 1 && a.type == 15 && a.code == 1)) { printf("   => VIOLATION\n"); failed |= 2; }

    printf("== C: a VALID serial write request (header+payload checksum, seq 0x0001, 40 octets payload),\n"
           "      hit by ONE burst of 16 bits starting at bit 5 (pattern clears both checksum option bits\n"
           "      and changes the sequence number), receive room 32 octets\n");
    n = build(f, 2, 6, 0, 0x0001, 0x10, 40, pl, 40);
    /* bits 5,6 of octet 0 (mask 0x06) and the top five bits of the sequence number (bits 16..20) */
    f[0] ^= 0x06; f[2] ^= 0xf8; /* error pattern confined to bits 5..20 */
    hex("   frame", f, n);
    wn = slip_enc(f, n, w);
    serial_setup(w, wn, 32); out_seen = 0;
    a = step(NULL, NULL);
    printf("   demanded: a header fault meta message (bad header encoding / bad header checksum)\n");
    if (!(a.n == 1 && a.type == 15)) { printf("   => VIOLATION: answered WRITE-RESPONSE ERXOVERFLOW for sequence number 0x%04x, which was never sent\n", a.seq); failed |= 4; }

    printf("== D (ordering, ordinary path): valid serial write request of 4 octets, single-bit error in the\n"
           "      first header word (WITH-HEADER-CRC cleared)\n");
    n = build(f, 2, 6, 0, 0x0002, 0x10, 4, pl, 4);
    f[0] ^= 0x02;
    hex("   frame", f, n);
    wn = slip_enc(f, n, w);
    serial_setup(w, wn, 64); out_seen = 0;
    int err = 0;
    a = step(NULL, &err);
    printf("   independent reading: no header checksum on a serial channel -> bad header encoding, META EHEADERENC;\n"
           "   library: error.id=%d, answers with a response that mirrors a header nobody verified\n", err);
    if (!(a.n == 1 && a.type == 15 && a.code == 1)) { printf("   => verdict differs (not executed, not acknowledged; classification/ordering only)\n"); failed |= 8; }
    /* D alone is a difference of classification only; A, B, C decide the exit status */

    printf("memory accesses executed: %d\n", exec_count);
    printf(failed ? "FINDING REPRODUCED (mask 0x%x)\n" : "not reproduced (0x%x)\n", failed);
    return (failed & 7) ? 1 : 0;
}
