/* Replay for C07.a (D32): "the payload checksum is verified whenever the frame declares that it carries one".
 * A serial frame that declares a payload checksum (WITH-PAYLOAD-CRC) but has no payload octets is accepted whatever its
 * payload checksum field says: check_payload() returns early for payload.size == 0.  The checksum of no octets is the
 * initial value 0x0000; the frame below carries 0xBEEF and is executed (a zero-length write reaches the memory backend)
 * and acknowledged.  With it, a 9-bit burst across the low octet of the header checksum and the high octet of the
 * payload checksum (pattern 50 c0 on octets 13, 14) - which the header checksum alone cannot see, because the payload
 * checksum word is covered by it while the header checksum is stored between the two - goes unnoticed as well.
 *   cc -I/repo/include -I/repo/_build/include replay_empty_payload_crc.c /repo/_build/libufw.a -o r && ./r */
#include <stdio.h>
#include <string.h>
#include <ufw/endpoints.h>
#include <ufw/register-protocol.h>

static unsigned char w_in[512], w_out[512];
static InstrumentableBuffer in, out;
static Source in_source;
static Sink out_sink;
static RegP local;
static int writes;

static RPBlockAccess rd(uint32_t a, size_t n, uint16_t *b)
{
    RPBlockAccess rv = RPB_BLOCK_ACCESS_INIT; (void)a; (void)n; (void)b; return rv;
}
static RPBlockAccess wr(uint32_t a, size_t n, const uint16_t *b)
{
    RPBlockAccess rv = RPB_BLOCK_ACCESS_INIT; (void)a; (void)n; (void)b; writes++; return rv;
}

/* bitwise CRC-16/ARC, independent of the library */
static uint16_t crc16(const unsigned char *p, size_t n)
{
    uint16_t c = 0;
    while (n--) {
        c ^= *p++;
        for (int i = 0; i < 8; i++) { c = (c & 1u) ? (uint16_t)((c >> 1) ^ 0xa001u) : (uint16_t)(c >> 1); }
    }
    return c;
}

static void slip(const unsigned char *f, size_t n)
{
    ByteBuffer *b = &in.buffer;
    for (size_t i = 0; i < n; i++) {
        if (f[i] == 0xc0u) { b->data[b->used++] = 0xdb; b->data[b->used++] = 0xdc; }
        else if (f[i] == 0xdbu) { b->data[b->used++] = 0xdb; b->data[b->used++] = 0xdd; }
        else { b->data[b->used++] = f[i]; }
    }
    b->data[b->used++] = 0xc0;
}

static int deliver(const char *what, const unsigned char *frame)
{
    RPMaybeFrame mf;
    regp_init(&local);
    byte_buffer_space(&in.buffer, w_in, sizeof w_in);
    byte_buffer_space(&out.buffer, w_out, sizeof w_out);
    instrumentable_set_trace(&in, false); instrumentable_set_trace(&out, false);
    instrumentable_source(&in_source, &in); instrumentable_sink(&out_sink, &out);
    regp_use_memory16(&local, rd, wr);
    regp_use_channel(&local, RP_EP_SERIAL, in_source, out_sink);
    writes = 0;
    slip(frame, 16);
    int rc = regp_recv(&local, &mf);
    if (mf.frame != NULL) {
        regp_process(&local, &mf);
        regp_free(&local, mf.frame);
    }
    printf("%s: recv rc=%d error.id=%d backend writes=%d reply octets=%zu (reply type/code word %02x%02x)\n", what, rc, mf.error.id,
           writes, out.buffer.used, out.buffer.used ? w_out[0] : 0, out.buffer.used ? w_out[1] : 0);
    return writes;
}

int main(void)
{
    /* version 0, type WRITE-REQUEST, options WORD-SIZE-16 | WITH-HEADER-CRC | WITH-PAYLOAD-CRC, meta 0;
     * sequence 0x0102, address 0x10, block size 0; payload checksum field 0xBEEF; no payload */
    unsigned char f[16] = { 0 };
    const unsigned motv = (RP_IMPLEMENTATION_VERSION & 0xfu) | ((unsigned)RP_FRAME_WRITE_REQUEST << 4)
        | ((unsigned)(RP_OPT_WORD_SIZE_16 | RP_OPT_WITH_HEADER_CRC | RP_OPT_WITH_PAYLOAD_CRC) << 8);
    f[0] = (unsigned char)(motv >> 8); f[1] = (unsigned char)motv;
    f[2] = 0x01; f[3] = 0x02; f[7] = 0x10;
    f[14] = 0xbe; f[15] = 0xef;
    unsigned char cov[14];
    memcpy(cov, f, 12); memcpy(cov + 12, f + 14, 2);
    uint16_t h = crc16(cov, 14);
    f[12] = (unsigned char)(h >> 8); f[13] = (unsigned char)h;
    int bad = 0;
    bad += deliver("declared payload checksum 0xBEEF over no payload", f) != 0;

    /* a consistent frame of the same shape (checksum of nothing = 0x0000), then hit by the burst 50 c0 */
    f[14] = 0; f[15] = 0;
    memcpy(cov + 12, f + 14, 2);
    h = crc16(cov, 14);
    f[12] = (unsigned char)(h >> 8); f[13] = (unsigned char)h;
    f[13] ^= 0x50; f[14] ^= 0xc0;
    bad += deliver("9-bit burst over header-checksum low / payload-checksum high octet", f) != 0;
    puts(bad ? "FAIL: a frame whose declared payload checksum does not match is executed and acknowledged" : "PASS");
    return bad != 0;
}
