/* finding-2: doc/regp.txt 5.1 mandates two option bits on serial channels:
 * WITH-HEADER-CRC always, WITH-PAYLOAD-CRC "with messages that carry
 * payload". Fix 65433e5 enforces the first only. A serial frame with header
 * checksum, payload and no payload checksum is accepted; its payload octets
 * are protected by nothing, so any bit error in them is executed against
 * memory and acknowledged. */
#include "audit_common.h"

int main(void)
{
    int failed = 0;
    uint8_t f[64], w[128];
    const uint8_t pl[4] = { 0x11, 0x22, 0x33, 0x44 };

    printf("== serial, WRITE-REQUEST 8 bit, options = WITH-HEADER-CRC only, 4 payload octets\n");
    size_t n = build(f, 2, 2, 0, 0x0007, 0x20, 4, pl, 4);
    hex("   frame", f, n);
    size_t wn = slip_enc(f, n, w);
    serial_setup(w, wn, 64); out_seen = 0; exec_count = 0;
    struct answer a = step(NULL, NULL);
    printf("   demanded by an independent reading of 5.1: not a valid serial frame (payload without\n"
           "   WITH-PAYLOAD-CRC) -> header encoding fault, META EHEADERENC, nothing executed\n");
    if (exec_count != 0 || (a.type == 3 && a.code == 0)) { printf("   => executed and acknowledged\n"); failed |= 1; }

    printf("== the same frame after a single-bit error in a payload octet (0x22 -> 0x2a)\n");
    f[n - 3] ^= 0x08;
    hex("   frame", f, n);
    wn = slip_enc(f, n, w);
    serial_setup(w, wn, 64); out_seen = 0; exec_count = 0;
    a = step(NULL, NULL);
    printf("   demanded (C07): a frame whose payload octets suffered a one-bit error is never executed\n"
           "   nor acknowledged\n");
    if (exec_count != 0 || (a.type == 3 && a.code == 0)) { printf("   => VIOLATION: corrupted payload written to memory (mem[0x21]=0x%02x) and ACKNOWLEDGEd\n", mem8[0x21]); failed |= 2; }

    printf(failed ? "FINDING REPRODUCED (mask 0x%x)\n" : "not reproduced (0x%x)\n", failed);
    return failed ? 1 : 0;
}
