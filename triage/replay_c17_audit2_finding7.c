/* C17 finding 7: sts_drain() (and sts_some()/sts_atmost() with more room than
 * data) over an octet-style source loses the last octets of the stream.
 * On both buffer paths core.c asks an octet source for EXACTLY the size of the
 * window with source_get_chunk(); when the source ends inside the window the
 * octets already taken out of it are dropped and only -ENODATA comes back, so
 * the drain "completes" with a truncated copy. sts_drain_cbc() is right. */
#include <stdio.h>
#include <string.h>
#include <errno.h>
#include <ufw/endpoints.h>

static unsigned char scratch[4];
static ByteBuffer getscratch(Source *s) { (void)s; ByteBuffer b = BYTE_BUFFER(scratch, sizeof scratch); return b; }

int main(void)
{
    int bad = 0;
    unsigned char stream[6] = { 1, 2, 3, 4, 5, 6 };
    for (int which = 0; which < 2; ++which) {
        unsigned char store[16];
        InstrumentableBuffer ib;
        memset(&ib, 0, sizeof ib);
        byte_buffer_use(&ib.buffer, stream, sizeof stream);
        ByteBuffer out = BYTE_BUFFER_EMPTY(store, sizeof store);
        Source s; Sink k;
        instrumentable_source(&s, &ib);          /* the library's octet-style source */
        sink_to_buffer(&k, &out);
        if (which) s.ext.getbuffer = getscratch;  /* scratch window of 4 */
        const ssize_t rc = which ? sts_drain(&s, &k) : sts_drain_cbc(&s, &k);
        printf("%-32s octet source 1..6: returned %zd, source consumed %zu, sink got %zu:",
               which ? "sts_drain [source window of 4]" : "sts_drain_cbc", rc, ib.buffer.offset, out.used);
        for (size_t i = 0; i < out.used; ++i) printf(" %u", store[i]);
        printf("\n");
        if (rc == -ENODATA && out.used != 6) {
            printf("    VIOLATION: drain ended regularly (-ENODATA) but octets %zu..6 were taken from the source and dropped\n", out.used + 1);
            bad = 1;
        }
    }
    printf("property: a drain moves everything up to the source's end.\n");
    return bad;
}
