/* finding-1: register_set_from_hexstr() and register_block_touches_hole() work
 * on a table whose initialisation was refused.
 *
 * C04: "... otherwise it reports the first violated rule ..., and the typed,
 * block, iteration and sanitise operations then report the table as
 * uninitialised."
 */
#include <stdio.h>
#include <stdlib.h>
#include <string.h>
#include <unistd.h>
#include <sys/wait.h>
#include <ufw/register-table.h>

static RegisterAtom mem0[4];

static int scenario_a(void)
{
    int bad = 0;
    RegisterArea areas[] = {
        { .read = reg_mem_read, .write = reg_mem_write, .flags = REG_AF_RW,
          .base = 0x100, .size = 4, .mem = mem0 },
        REGISTER_AREA_END
    };
    RegisterEntry entries[] = {
        /* default 5 is outside of [10,20]: the table is malformed */
        REG_U16RANGE(0, 0x100, 10, 20, 5),
        [1] = REGISTER_ENTRY_END
    };
    RegisterTable t = { .area = areas, .entry = entries };
    RegisterAtom buf[1] = { 0x1234 };

    RegisterInit ri = register_init(&t);
    printf("A: register_init -> code %d (REG_INIT_ENTRY_INVALID_DEFAULT=%d), entry %u\n",
           ri.code, REG_INIT_ENTRY_INVALID_DEFAULT, ri.pos.entry);
    if (ri.code != REG_INIT_ENTRY_INVALID_DEFAULT) {
        printf("A: unexpected init result, scenario not applicable\n");
        return 0;
    }

    RegisterAccess bw = register_block_write(&t, 0x100, 1, buf);
    printf("A: register_block_write      -> code %d (UNINITIALISED=%d)  [as demanded]\n",
           bw.code, REG_ACCESS_UNINITIALISED);

    RegisterAccess th = register_block_touches_hole(&t, 0x100, 4);
    printf("A: register_block_touches_hole(0x100,4) -> code %d; property demands %d\n",
           th.code, REG_ACCESS_UNINITIALISED);
    if (th.code != REG_ACCESS_UNINITIALISED) bad = 1;

    memset(mem0, 0, sizeof mem0);
    RegisterAccess hx = register_set_from_hexstr(&t, 0x100, "beefcafe", 8);
    printf("A: register_set_from_hexstr(0x100,\"beefcafe\") -> code %d; property demands %d\n",
           hx.code, REG_ACCESS_UNINITIALISED);
    printf("A: area memory afterwards: %04x %04x (demanded: untouched 0000 0000)\n",
           mem0[0], mem0[1]);
    if (hx.code != REG_ACCESS_UNINITIALISED || mem0[0] != 0 || mem0[1] != 0) bad = 1;
    return bad;
}

/* The history of fix c2d6908: a table that was initialised once and whose
 * re-initialisation is refused with REG_INIT_TABLE_INVALID. */
static int scenario_b(void)
{
    RegisterArea areas[] = {
        { .read = reg_mem_read, .write = reg_mem_write, .flags = REG_AF_RW,
          .base = 0x100, .size = 4, .mem = mem0 },
        REGISTER_AREA_END
    };
    RegisterEntry entries[] = { REG_U16(0, 0x100, 5), [1] = REGISTER_ENTRY_END };
    RegisterTable t = { .area = areas, .entry = entries };
    RegisterInit ri = register_init(&t);
    printf("B: first register_init -> code %d (SUCCESS=0)\n", ri.code);
    t.area = NULL;
    ri = register_init(&t);
    printf("B: second register_init with area list NULL -> code %d (REG_INIT_TABLE_INVALID=%d)\n",
           ri.code, REG_INIT_TABLE_INVALID);
    RegisterAtom buf[1];
    RegisterAccess br = register_block_read(&t, 0x100, 1, buf);
    printf("B: register_block_read -> code %d (UNINITIALISED=%d)  [as demanded]\n",
           br.code, REG_ACCESS_UNINITIALISED);
    fflush(stdout);

    int bad = 0;
    for (int which = 0; which < 2; which++) {
        pid_t pid = fork();
        if (pid == 0) {
            /* child: silence the sanitizer report, the parent reports the signal */
            (void)!freopen("/dev/null", "w", stderr);
            RegisterAccess a = which == 0
                ? register_set_from_hexstr(&t, 0x100, "beef", 4)
                : register_block_touches_hole(&t, 0x100, 1);
            _exit(a.code == REG_ACCESS_UNINITIALISED ? 0 : 10);
        }
        int st = 0;
        waitpid(pid, &st, 0);
        const char *name = which == 0 ? "register_set_from_hexstr" : "register_block_touches_hole";
        if (WIFSIGNALED(st)) {
            printf("B: %s -> killed by signal %d (null area list dereferenced); demanded: UNINITIALISED\n",
                   name, WTERMSIG(st));
            bad = 1;
        } else if (WEXITSTATUS(st) != 0) {
            printf("B: %s -> exit status %d (1 = sanitizer abort on the null area list, 10 = wrong code); demanded: UNINITIALISED\n",
                   name, WEXITSTATUS(st));
            bad = 1;
        } else {
            printf("B: %s -> UNINITIALISED\n", name);
        }
    }
    return bad;
}

int main(void)
{
    int bad = scenario_a();
    bad |= scenario_b();
    printf(bad ? "FINDING REPRODUCED\n" : "not reproduced\n");
    return bad;
}
