/* C17 finding 2: sts_drain() between two ordinary endpoints (no buffer
 * extension on either side) answers a sink that runs full with -EPIPE instead
 * of the sink driver's -ENOMEM.  sts_n() and sts_drain_cbc() return -ENOMEM for
 * the very same endpoints. */
#include <stdio.h>
#include <errno.h>
#include <ufw/endpoints.h>

static unsigned char stream[8] = { 1, 2, 3, 4, 5, 6, 7, 8 };

static ssize_t run(int which, size_t *got)
{
    unsigned char store[3];
    ByteBuffer in = BYTE_BUFFER(stream, sizeof stream);
    ByteBuffer out = BYTE_BUFFER_EMPTY(store, sizeof store);
    Source src; Sink snk;
    source_from_buffer(&src, &in);
    sink_to_buffer(&snk, &out);
    const ssize_t rc = which == 0 ? sts_drain(&src, &snk)
                     : which == 1 ? sts_drain_cbc(&src, &snk)
                     :              sts_n(&src, &snk, 8);
    *got = out.used;
    return rc;
}

int main(void)
{
    size_t got;
    printf("source_from_buffer(8 octets) -> sink_to_buffer(room for 3), no getbuffer extension anywhere\n");
    const ssize_t a = run(1, &got);
    printf("  sts_drain_cbc : %zd (sink took %zu)\n", a, got);
    const ssize_t b = run(2, &got);
    printf("  sts_n(8)      : %zd (sink took %zu)\n", b, got);
    const ssize_t c = run(0, &got);
    printf("  sts_drain     : %zd (sink took %zu)\n", c, got);
    printf("property: a hard driver error is returned unchanged: the sink said -ENOMEM (%d)\n", -ENOMEM);
    if (c != -ENOMEM) {
        printf("VIOLATION: sts_drain returned %zd%s\n", c, c == -EPIPE ? " (-EPIPE)" : "");
        return 1;
    }
    return 0;
}
