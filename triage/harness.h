/* Common audit harness: a RegP receiver on a memory wire, with an execution
 * log, plus an independent reference model of the protocol document. */
#ifndef AUDIT_HARNESS_H
#define AUDIT_HARNESS_H

#include <stdbool.h>
#include <stdint.h>
#include <stdio.h>
#include <stdlib.h>
#include <string.h>
#include <errno.h>

#include <ufw/toolchain.h>
#include <ufw/binary-format.h>
#include <ufw/byte-buffer.h>
#include <ufw/endpoints.h>
#include <ufw/register-protocol.h>

/* ------------------------------------------------------------------ */
/* Independent CRC-16-ARC (bitwise, reflected 0x8005 = 0xA001)         */
static uint16_t
ref_crc(uint16_t crc, const unsigned char *p, size_t n)
{
    for (size_t i = 0; i < n; ++i) {
        crc ^= p[i];
        for (int k = 0; k < 8; ++k) {
            crc = (crc & 1u) ? (uint16_t)((crc >> 1) ^ 0xA001u)
                             : (uint16_t)(crc >> 1);
        }
    }
    return crc;
}

static inline unsigned rd16(const unsigned char *p) { return (p[0] << 8) | p[1]; }
static inline uint32_t rd32(const unsigned char *p)
{ return ((uint32_t)p[0] << 24) | ((uint32_t)p[1] << 16) | ((uint32_t)p[2] << 8) | p[3]; }
static inline void wr16(unsigned char *p, unsigned v) { p[0] = v >> 8; p[1] = v & 0xff; }
static inline void wr32(unsigned char *p, uint32_t v)
{ p[0] = v >> 24; p[1] = (v >> 16) & 0xff; p[2] = (v >> 8) & 0xff; p[3] = v & 0xff; }

/* ------------------------------------------------------------------ */
/* Reference model: verdict of an independent reading of doc/regp.txt  */
enum verdict { V_OK = 0, V_HDRENC, V_HDRCRC, V_PLSIZE, V_PLCRC };
static const char *vname[] = { "OK", "EHEADERENC", "EHEADERCRC", "EPAYLOADSIZE", "EPAYLOADCRC" };

typedef struct RefFrame {
    unsigned version, type, options, meta, seq, hdcrc, plcrc;
    uint32_t address, blocksize;
    size_t hdrlen, plen;
    const unsigned char *payload;
} RefFrame;

static enum verdict
ref_verdict(const unsigned char *f, size_t n, RefFrame *r)
{
    memset(r, 0, sizeof(*r));
    if (n < 12) return V_HDRENC;
    const unsigned w0 = rd16(f);
    r->version = w0 & 0xf;
    r->type = (w0 >> 4) & 0xf;
    r->options = (w0 >> 8) & 0xf;
    r->meta = (w0 >> 12) & 0xf;
    if (r->version != 0) return V_HDRENC;
    if (r->options & 8) return V_HDRENC;
    switch (r->type) {
    case 0: case 2: if (r->meta != 0) return V_HDRENC; break;
    case 1: case 3: if (r->meta > 11) return V_HDRENC; break;
    case 15: if (r->meta != 1 && r->meta != 2) return V_HDRENC; break;
    default: return V_HDRENC;
    }
    r->seq = rd16(f + 2);
    r->address = rd32(f + 4);
    r->blocksize = rd32(f + 8);
    const bool hc = r->options & 2, pc = r->options & 4;
    r->hdrlen = 12 + (hc ? 2 : 0) + (pc ? 2 : 0);
    if (n < r->hdrlen) return V_HDRENC;
    size_t o = 12;
    if (hc) { r->hdcrc = rd16(f + o); o += 2; }
    if (pc) { r->plcrc = rd16(f + o); o += 2; }
    if (hc) {
        uint16_t c = ref_crc(0, f, 12);
        if (pc) c = ref_crc(c, f + 14, 2);
        if (c != r->hdcrc) return V_HDRCRC;
    }
    r->payload = f + r->hdrlen;
    r->plen = n - r->hdrlen;
    size_t units = r->plen;
    if (r->options & 1) {
        if (units % 2) return V_PLSIZE;
        units /= 2;
    }
    if (r->type == 0 || r->type == 15) {
        if (units != 0) return V_PLSIZE;
    } else if (units != r->blocksize) {
        return V_PLSIZE;
    }
    if (pc) {
        /* "the payload checksum is verified whenever the frame declares
         * that it carries one"; the CRC of no octets is 0 and the document
         * says the field is all-zero when there is no payload. */
        if (ref_crc(0, r->payload, r->plen) != r->plcrc) return V_PLCRC;
    }
    return V_OK;
}

/* ------------------------------------------------------------------ */
/* Receiver under test                                                 */
#define WIRE 70000u
static unsigned char h_in[WIRE], h_out[WIRE];
static ByteBuffer h_inb, h_outb;
static Source h_src;
static Sink h_snk;
static RegP h_p;

static unsigned h_exec_reads, h_exec_writes;
static uint32_t h_last_addr; static size_t h_last_n;

#define HMEM 4096
static uint16_t h_mem16[HMEM];
static uint8_t h_mem8[HMEM];

static RPBlockAccess h_r16(uint32_t a, size_t n, uint16_t *b)
{ RPBlockAccess rv = RPB_BLOCK_ACCESS_INIT; h_exec_reads++; h_last_addr = a; h_last_n = n;
  for (size_t i = 0; i < n; ++i) b[i] = h_mem16[(a + i) % HMEM]; return rv; }
static RPBlockAccess h_w16(uint32_t a, size_t n, const uint16_t *b)
{ RPBlockAccess rv = RPB_BLOCK_ACCESS_INIT; h_exec_writes++; h_last_addr = a; h_last_n = n;
  for (size_t i = 0; i < n; ++i) h_mem16[(a + i) % HMEM] = b[i]; return rv; }
static RPBlockAccess h_r8(uint32_t a, size_t n, uint8_t *b)
{ RPBlockAccess rv = RPB_BLOCK_ACCESS_INIT; h_exec_reads++; h_last_addr = a; h_last_n = n;
  for (size_t i = 0; i < n; ++i) b[i] = h_mem8[(a + i) % HMEM]; return rv; }
static RPBlockAccess h_w8(uint32_t a, size_t n, const uint8_t *b)
{ RPBlockAccess rv = RPB_BLOCK_ACCESS_INIT; h_exec_writes++; h_last_addr = a; h_last_n = n;
  for (size_t i = 0; i < n; ++i) h_mem8[(a + i) % HMEM] = b[i]; return rv; }

static BlockAllocator h_alloc = MAKE_STDHEAD_BLOCKALLOC(4096);

static void
h_setup(RPEndpointType ep, RPMemoryType mt)
{
    regp_init(&h_p);
    byte_buffer_space(&h_inb, h_in, WIRE);
    byte_buffer_space(&h_outb, h_out, WIRE);
    source_from_buffer(&h_src, &h_inb);
    sink_to_buffer(&h_snk, &h_outb);
    regp_use_channel(&h_p, ep, h_src, h_snk);
    regp_use_allocator(&h_p, &h_alloc);
    if (mt == RP_MEMTYPE_16) regp_use_memory16(&h_p, h_r16, h_w16);
    else regp_use_memory8(&h_p, h_r8, h_w8);
    h_exec_reads = h_exec_writes = 0;
}

static void h_wire_reset(void)
{ byte_buffer_reset(&h_inb); byte_buffer_reset(&h_outb); h_exec_reads = h_exec_writes = 0; }

/* SLIP encode (independent) */
static size_t
slip_enc(unsigned char *dst, const unsigned char *src, size_t n)
{
    size_t o = 0;
    for (size_t i = 0; i < n; ++i) {
        if (src[i] == 0xC0) { dst[o++] = 0xDB; dst[o++] = 0xDC; }
        else if (src[i] == 0xDB) { dst[o++] = 0xDB; dst[o++] = 0xDD; }
        else dst[o++] = src[i];
    }
    dst[o++] = 0xC0;
    return o;
}

/* SLIP decode of the response wire into individual frames */
typedef struct Resp { unsigned char d[600]; size_t n; } Resp;

static size_t
slip_split(const unsigned char *w, size_t n, Resp *out, size_t max)
{
    size_t k = 0; size_t m = 0;
    for (size_t i = 0; i < n && k < max; ++i) {
        if (w[i] == 0xC0) { out[k++].n = m; m = 0; continue; }
        unsigned char c = w[i];
        if (c == 0xDB && i + 1 < n) { ++i; c = (w[i] == 0xDC) ? 0xC0 : 0xDB; }
        if (m < sizeof(out[k].d)) out[k].d[m++] = c;
    }
    return k;
}

static size_t
lenp_split(const unsigned char *w, size_t n, Resp *out, size_t max)
{
    size_t k = 0, i = 0;
    while (i < n && k < max) {
        size_t len = 0; unsigned sh = 0;
        for (;;) { unsigned char c = w[i++]; len |= (size_t)(c & 0x7f) << sh; sh += 7; if (!(c & 0x80)) break; }
        out[k].n = len < sizeof(out[k].d) ? len : sizeof(out[k].d);
        memcpy(out[k].d, w + i, out[k].n);
        i += len; k++;
    }
    return k;
}

/* Put one raw frame on the input wire with the transport's framing */
static void
h_put_frame(const unsigned char *f, size_t n)
{
    if (h_p.ep.type == RP_EP_SERIAL) {
        static unsigned char tmp[2 * WIRE / 2];
        size_t m = slip_enc(tmp, f, n);
        byte_buffer_add(&h_inb, tmp, m);
    } else {
        unsigned char pre[10]; size_t k = 0; size_t v = n;
        do { pre[k] = v & 0x7f; v >>= 7; if (v) pre[k] |= 0x80; k++; } while (v);
        byte_buffer_add(&h_inb, pre, k);
        if (n) byte_buffer_add(&h_inb, f, n);
    }
}

typedef struct Outcome {
    int recv_rc, proc_rc, err;
    bool have_frame;
} Outcome;

/* run one recv+process cycle */
static Outcome
h_cycle(void)
{
    Outcome o; RPMaybeFrame mf;
    o.recv_rc = regp_recv(&h_p, &mf);
    o.err = mf.error.id;
    o.have_frame = mf.frame != NULL;
    o.proc_rc = regp_process(&h_p, &mf);
    regp_free(&h_p, mf.frame);
    return o;
}

static size_t
h_responses(Resp *out, size_t max)
{
    const unsigned char *w = h_outb.data + h_outb.offset;
    const size_t n = h_outb.used - h_outb.offset;
    return (h_p.ep.type == RP_EP_SERIAL) ? slip_split(w, n, out, max)
                                         : lenp_split(w, n, out, max);
}

static enum verdict
lib_verdict(const Outcome *o)
{
    switch (o->err) {
    case 0: return V_OK;
    case EBADMSG: return V_HDRENC;
    case EILSEQ: return V_HDRCRC;
    case EFAULT: return V_PLSIZE;
    case EPROTO: return V_PLCRC;
    default: return (enum verdict)(100 + o->err);
    }
}

/* Build a well-formed frame as a sender following the document would */
static size_t
mk_frame(unsigned char *f, unsigned type, unsigned meta, unsigned opts,
         unsigned seq, uint32_t addr, uint32_t bs,
         const unsigned char *pl, size_t plen)
{
    wr16(f, (meta << 12) | (opts << 8) | (type << 4));
    wr16(f + 2, seq); wr32(f + 4, addr); wr32(f + 8, bs);
    size_t o = 12;
    const bool hc = opts & 2, pc = opts & 4;
    size_t hpos = 0;
    if (hc) { hpos = o; o += 2; }
    if (pc) { wr16(f + o, ref_crc(0, pl, plen)); o += 2; }
    if (hc) {
        uint16_t c = ref_crc(0, f, 12);
        if (pc) c = ref_crc(c, f + 14, 2);
        wr16(f + hpos, c);
    }
    if (plen) memcpy(f + o, pl, plen);
    return o + plen;
}

static void
hexdump_(const char *tag, const unsigned char *p, size_t n)
{
    printf("%s (%zu):", tag, n);
    for (size_t i = 0; i < n; ++i) printf(" %02x", p[i]);
    printf("\n");
}

#endif
