/* C17 finding 2: source-to-sink plumbing does not survive EINTR/EAGAIN.
 *
 * source_get_chunk()/sink_put_chunk() retry on -EINTR/-EAGAIN as the property
 * demands, but the plumbing is built on the one-shot primitives
 * (source_get_octet, sink_put_octet, source_get_chunk_atmost and direct driver
 * calls) and hands the interruption to the caller as a failure:
 *   (a) sts_n_cbc / sts_n / sts_drain(_cbc): EAGAIN from the source aborts;
 *   (b) EINTR from the SINK aborts, and the octet already taken from the
 *       source is dropped, so a caller that (correctly) retries gets a hole;
 *   (c) sts_n_aux / sts_drain_aux: EINTR from a CHUNK source aborts, while the
 *       same interruption from an OCTET source is retried (octet and chunk
 *       drivers are not treated alike).
 */
#include <stdio.h>
#include <string.h>
#include <errno.h>
#include <ufw/endpoints.h>

struct src { const unsigned char *s; size_t len, pos; int intr_at_call, calls, err; };
struct snk { unsigned char out[16]; size_t cnt; int intr_at_call, calls, err; };

static ssize_t csrc(void *d, void *buf, size_t n) {
    struct src *s = d;
    if (++s->calls == s->intr_at_call) return s->err;
    if (s->pos == s->len) return -ENODATA;
    size_t m = s->len - s->pos; if (m > n) m = n; if (m > 2) m = 2;
    memcpy(buf, s->s + s->pos, m); s->pos += m; return (ssize_t)m;
}
static int osrc(void *d, void *buf) {
    struct src *s = d;
    if (++s->calls == s->intr_at_call) return s->err;
    if (s->pos == s->len) return -ENODATA;
    *(unsigned char *)buf = s->s[s->pos++]; return 1;
}
static ssize_t csnk(void *d, const void *buf, size_t n) {
    struct snk *k = d;
    if (++k->calls == k->intr_at_call) return k->err;
    memcpy(k->out + k->cnt, buf, n); k->cnt += n; return (ssize_t)n;
}
static const unsigned char stream[6] = { 0xb1, 0xb2, 0xb3, 0xb4, 0xb5, 0xb6 };
static void dump(const unsigned char *p, size_t n) { for (size_t i = 0; i < n; i++) printf(" %02x", p[i]); printf("\n"); }

int main(void) {
    int bad = 0; Source so; Sink si; ssize_t r;
    printf("stream:"); dump(stream, 6);
    printf("property: N octets are moved for ANY mix of partial transfers, zero returns and EINTR/EAGAIN\n\n");
    { /* (a) */
        struct src S = { stream, 6, 0, 3, 0, -EAGAIN }; struct snk K; memset(&K, 0, sizeof K);
        chunk_source_init(&so, csrc, &S); chunk_sink_init(&si, csnk, &K);
        r = sts_n(&so, &si, 4);
        printf("(a) sts_n(4), source says EAGAIN on its 3rd call: returned %zd (%s), sink holds %zu octets\n", r, r == -EAGAIN ? "-EAGAIN" : "?", K.cnt);
        if (r != 4) { printf("  VIOLATION: transfer abandoned because of a transient EAGAIN\n"); bad = 1; }
    }
    { /* (b) */
        struct src S = { stream, 6, 0, 0, 0, 0 }; struct snk K; memset(&K, 0, sizeof K); K.intr_at_call = 2; K.err = -EINTR;
        chunk_source_init(&so, csrc, &S); chunk_sink_init(&si, csnk, &K);
        r = sts_n_cbc(&so, &si, 4);
        printf("(b) sts_n_cbc(4), sink says EINTR on its 2nd call: returned %zd, source consumed %zu, sink holds %zu\n", r, S.pos, K.cnt);
        if (r < 0) {
            printf("    caller retries the remaining %zu octets as any EINTR handler would ...\n", 4 - K.cnt);
            r = sts_n_cbc(&so, &si, 4 - K.cnt);
            printf("    second call returned %zd, sink holds:", r); dump(K.out, K.cnt);
        }
        if (K.cnt != 4 || memcmp(K.out, stream, 4)) { printf("  VIOLATION: octet b2 was taken from the source and never delivered\n"); bad = 1; }
    }
    { /* (c) chunk vs octet source under sts_n_aux */
        unsigned char aux[4]; ByteBuffer ab = BYTE_BUFFER(aux, sizeof aux);
        struct src S = { stream, 6, 0, 2, 0, -EINTR }; struct snk K; memset(&K, 0, sizeof K);
        octet_source_init(&so, osrc, &S); chunk_sink_init(&si, csnk, &K);
        r = sts_n_aux(&so, &si, &ab, 5);
        printf("(c) sts_n_aux(5), OCTET source says EINTR on 2nd call: returned %zd, sink holds %zu\n", r, K.cnt);
        struct src S2 = { stream, 6, 0, 2, 0, -EINTR }; struct snk K2; memset(&K2, 0, sizeof K2);
        ByteBuffer ab2 = BYTE_BUFFER(aux, sizeof aux);
        chunk_source_init(&so, csrc, &S2); chunk_sink_init(&si, csnk, &K2);
        ssize_t r2 = sts_n_aux(&so, &si, &ab2, 5);
        printf("    sts_n_aux(5), CHUNK source says EINTR on 2nd call: returned %zd, sink holds %zu\n", r2, K2.cnt);
        if (r != r2) { printf("  VIOLATION: octet-style and chunk-style drivers are not treated alike; chunk transfer abandoned on EINTR\n"); bad = 1; }
        struct src S3 = { stream, 6, 0, 2, 0, -EAGAIN }; struct snk K3; memset(&K3, 0, sizeof K3);
        ByteBuffer ab3 = BYTE_BUFFER(aux, sizeof aux);
        chunk_source_init(&so, csrc, &S3); chunk_sink_init(&si, csnk, &K3);
        r = sts_drain_aux(&so, &si, &ab3);
        printf("    sts_drain_aux, CHUNK source says EAGAIN on 2nd call: returned %zd, sink holds %zu of 6\n", r, K3.cnt);
        if (K3.cnt != 6) { printf("  VIOLATION: drain stopped before the source's end although no hard error occurred\n"); bad = 1; }
    }
    printf("\n%s\n", bad ? "finding-2: DEFECT REPRODUCED" : "finding-2: not reproduced");
    return bad;
}
