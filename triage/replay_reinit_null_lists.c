/* Replay for C04.a (D34): a re-initialisation refused because the area (or entry) list is missing leaves the table marked
 * initialised by the earlier call: operations keep working on it instead of reporting REG_ACCESS_UNINITIALISED.
 *   cc -I/repo/include -I/repo/_build/include replay_reinit_null_lists.c /repo/_build/libufw.a -lm -o r && ./r
 * (program written by an audit sub-agent, re-run here against /repo) */
#include <inttypes.h>
#include <stdio.h>

#include <ufw/register-table.h>

static int
count(RegisterTable *t, RegisterHandle h, void *arg)
{
    (void)t; (void)h;
    ++*(int*)arg;
    return 0;
}

int
main(void)
{
    static RegisterAtom mem[8];
    RegisterArea areas[] = {
        { .read = reg_mem_read, .write = reg_mem_write, .flags = REG_AF_RW,
          .base = 0x100u, .size = 8u, .mem = mem },
        REGISTER_AREA_END
    };
    RegisterEntry entries[] = {
        REG_U16(0, 0x100u, 0x1234u),
        REG_U32(1, 0x102u, 0x89abcdefu),
        REGISTER_ENTRY_END
    };
    RegisterTable t = { .area = areas, .entry = entries };
    int bad = 0;

    RegisterInit rv = register_init(&t);
    printf("step 1: init of a well-formed table: code %d\n", rv.code);

    /* The description loses its area table (zero areas) and is initialised
     * again, e.g. after a failed (re)allocation or a torn-down device. */
    t.area = NULL;
    rv = register_init(&t);
    printf("step 2: t.area = NULL, init again: code %d"
           " (REG_INIT_TABLE_INVALID=%d)\n", rv.code, REG_INIT_TABLE_INVALID);
    if (rv.code == REG_INIT_SUCCESS) {
        bad = 1;
    }
    printf("demanded : every operation now reports REG_ACCESS_UNINITIALISED (%d)\n",
           REG_ACCESS_UNINITIALISED);

    RegisterValue v = { .type = REG_TYPE_UINT16, .value.u16 = 0 };
    RegisterAccess a = register_get(&t, 0, &v);
    printf("observed : register_get(0)      -> code %d, value 0x%04x\n",
           a.code, v.value.u16);
    bad |= (a.code != REG_ACCESS_UNINITIALISED);

    v.value.u16 = 0x5555u;
    a = register_set(&t, 0, v);
    printf("observed : register_set(0)      -> code %d, memory word now 0x%04x\n",
           a.code, mem[0]);
    bad |= (a.code != REG_ACCESS_UNINITIALISED);

    int n = 0;
    a = register_foreach_in(&t, 0x100u, 0u, count, &n);
    printf("observed : register_foreach_in  -> code %d\n", a.code);
    bad |= (a.code != REG_ACCESS_UNINITIALISED);

    a = register_sanitise(&t);
    printf("observed : register_sanitise    -> code %d\n", a.code);
    bad |= (a.code != REG_ACCESS_UNINITIALISED);

    RegisterAtom w = 0;
    a = register_block_read(&t, 0x100u, 0u, &w);
    printf("observed : register_block_read (n=0) -> code %d\n", a.code);
    bad |= (a.code != REG_ACCESS_UNINITIALISED);

    if (bad) {
        printf("VIOLATION: table still acts as initialised after a failed init\n");
    }
    fflush(stdout);
#ifdef CRASH
    /* With n > 0 the block operations dereference t->area == NULL. */
    printf("register_block_read (n=1) -> ");
    fflush(stdout);
    a = register_block_read(&t, 0x100u, 1u, &w);
    printf("code %d\n", a.code);
#endif
    return bad;
}
