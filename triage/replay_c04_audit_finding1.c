/*
 * C04 finding 1: a register that sticks out of its area (and out of the 32-bit
 * address space) is accepted, and its default is written past the end of the
 * area's memory.
 *
 * Clause: "Initialisation succeeds exactly when ... every register lies wholly
 * inside one area ...; otherwise it reports the first violated rule with the
 * index of the offending ... register".
 *
 * Build with -DUSE_HEAP and -fsanitize=address to let ASan report the
 * out-of-bounds memcpy in reg_mem_write() instead of the canary check.
 */
#include <inttypes.h>
#include <stdio.h>
#include <stdlib.h>
#include <string.h>

#include <ufw/register-table.h>

#define AREA_BASE 0xfffffff0u
#define AREA_SIZE 15u           /* words 0xfffffff0 .. 0xfffffffe */

static struct {
    RegisterAtom mem[AREA_SIZE];
    RegisterAtom canary[4];
} backing;

int
main(void)
{
    RegisterAtom *mem = backing.mem;
#ifdef USE_HEAP
    mem = malloc(AREA_SIZE * sizeof(RegisterAtom));
#endif
    for (unsigned i = 0; i < 4; ++i) {
        backing.canary[i] = 0xc0deu;
    }

    RegisterArea areas[] = {
        { .read = reg_mem_read, .write = reg_mem_write, .flags = REG_AF_RW,
          .base = AREA_BASE, .size = AREA_SIZE, .mem = mem },
        REGISTER_AREA_END
    };
    /* A 32-bit register whose first word is the LAST word of the area: its
     * second word (address 0xffffffff) is outside the area. */
    RegisterEntry entries[] = {
        REG_U32(0, 0xfffffffeu, 0xdeadbeefu),
        REGISTER_ENTRY_END
    };
    RegisterTable t = { .area = areas, .entry = entries };

    printf("area     : base 0x%08" PRIx32 ", %u words, i.e. 0x%08" PRIx32
           "..0x%08" PRIx32 "\n", (uint32_t)AREA_BASE, AREA_SIZE,
           (uint32_t)AREA_BASE, (uint32_t)(AREA_BASE + AREA_SIZE - 1u));
    printf("register : u32 (2 words) at 0x%08" PRIx32 ", default 0xdeadbeef\n",
           entries[0].address);
    printf("demanded : REG_INIT_ENTRY_IN_MEMORY_HOLE (%d) for entry 0, no write\n",
           REG_INIT_ENTRY_IN_MEMORY_HOLE);

    RegisterInit rv = register_init(&t);
    printf("observed : code %d, entry %" PRIu32 "\n", rv.code, rv.pos.entry);

    int bad = 0;
    if (rv.code != REG_INIT_ENTRY_IN_MEMORY_HOLE || rv.pos.entry != 0u) {
        printf("VIOLATION: straddling register was not rejected\n");
        bad = 1;
    }
#ifndef USE_HEAP
    for (unsigned i = 0; i < 4; ++i) {
        if (backing.canary[i] != 0xc0deu) {
            printf("VIOLATION: word %u behind the area's memory was overwritten"
                   " with 0x%04x\n", i, backing.canary[i]);
            bad = 1;
        }
    }
#endif
    RegisterValue v;
    RegisterAccess a = register_get(&t, 0, &v);
    printf("register_get(0) afterwards: code %d (UNINITIALISED=%d demanded)\n",
           a.code, REG_ACCESS_UNINITIALISED);
    if (a.code != REG_ACCESS_UNINITIALISED) {
        bad = 1;
    }
    return bad;
}
