/* C17 finding 4: sts_n() treats -ENOMEM from an ordinary sink as "try again",
 * so a full sink is never reported: sts_n keeps pulling octets out of the
 * source and throwing them away until the SOURCE fails (wrong error, whole
 * source destroyed) - and never returns at all for an endless source.
 */
#include <stdio.h>
#include <stdlib.h>
#include <string.h>
#include <errno.h>
#include <unistd.h>
#include <signal.h>
#include <ufw/endpoints.h>

static void on_alarm(int sig) { (void)sig;
    static const char m[] = "  VIOLATION: sts_n(&source_zero, full sink, 4) did not return within 2 s (endless retry on -ENOMEM)\n\nfinding-4: DEFECT REPRODUCED\n";
    (void)!write(1, m, sizeof m - 1); _exit(1); }

int main(void) {
    int bad = 0; setvbuf(stdout, NULL, _IONBF, 0);
    unsigned char in[8] = { 1, 2, 3, 4, 5, 6, 7, 8 }, out[2];
    ByteBuffer ib = BYTE_BUFFER(in, sizeof in), ob = BYTE_BUFFER_EMPTY(out, sizeof out);
    Source so; Sink si; source_from_buffer(&so, &ib); sink_to_buffer(&si, &ob);

    printf("source_from_buffer with 8 octets, sink_to_buffer with room for 2, sts_n(source, sink, 4)\n");
    printf("property: the failure is reported (-ENOMEM from the sink) and the sink holds a prefix\n");
    ssize_t r = sts_n(&so, &si, 4);
    printf("sts_n returned %zd (-ENOMEM=%d, -ENODATA=%d); source consumed %zu of 8; sink holds %zu\n", r, -ENOMEM, -ENODATA, ib.offset, ob.used);
    if (r != -ENOMEM) { printf("  VIOLATION: sink error not returned; sts_n drained the whole source (%zu octets discarded) and reported the source's error\n", ib.offset - ob.used); bad = 1; }
    ib.offset = 0; ob.used = 0;
    r = sts_n_cbc(&so, &si, 4);
    printf("for comparison sts_n_cbc returned %zd, source consumed %zu\n", r, ib.offset);

    printf("now the same with the endless source_zero ...\n");
    ob.used = 0; signal(SIGALRM, on_alarm); alarm(2);
    r = sts_n(&source_zero, &si, 4);
    alarm(0);
    printf("sts_n returned %zd\n", r);
    printf("\n%s\n", bad ? "finding-4: DEFECT REPRODUCED" : "finding-4: not reproduced");
    return bad;
}
