/*
 * finding-2: register_get() on a register that lives in a callback-backed
 * area without a read callback (a write-only area, what CUSTOM_AREA_WO() is
 * meant to declare) calls a NULL function pointer.
 *
 * register_setx() checks register_area_can_write() and answers
 * REG_ACCESS_READONLY when there is no write callback; its sibling
 * register_get() has no such check.
 *
 * Property C01: "in memory-backed or callback-backed areas, a successful
 * typed set followed by a get returns the identical value". Here init and the
 * set succeed and the get crashes instead of returning a value or an error.
 */
#include <signal.h>
#include <stdio.h>
#include <stdlib.h>
#include <string.h>
#include <unistd.h>

#include <ufw/register-table.h>

static RegisterAtom device[4];

static RegisterAccess
dev_write(RegisterArea *a, const RegisterAtom *src, RegisterOffset o,
          RegisterOffset n)
{
    RegisterAccess rv = REG_ACCESS_RESULT_INIT;
    (void)a;
    memcpy(device + o, src, n * sizeof(RegisterAtom));
    return rv;
}

static void
on_segv(int sig)
{
    static const char msg[] =
        "DEFECT: register_get() crashed (SIGSEGV): it called the NULL read "
        "callback of the write-only area\n";
    (void)sig;
    if (write(1, msg, sizeof msg - 1) < 0) { /* ignore */ }
    _exit(1);
}

int
main(void)
{
    RegisterArea areas[] = {
        /* == CUSTOM_AREA_WO(dev_write, 0x40, 4) if that macro compiled,
         * see finding-3 */
        MAKE_CUSTOM_AREA(NULL, dev_write, 0x40u, 4u, REG_AF_WRITEABLE),
        REGISTER_AREA_END
    };
    RegisterEntry entries[] = {
        REG_U16(0, 0x40u, 7u),
        REGISTER_ENTRY_END
    };
    RegisterTable t = { .area = areas, .entry = entries };

    setvbuf(stdout, NULL, _IONBF, 0);
    signal(SIGSEGV, on_segv);

    RegisterInit ri = register_init(&t);
    printf("register_init(): code=%d (0 = success)\n", (int)ri.code);

    RegisterValue v = { .type = REG_TYPE_UINT16, .value.u16 = 0xabcdu };
    RegisterAccess a = register_set(&t, 0, v);
    printf("register_set(handle 0, u16 0xabcd): code=%d, device[0]=0x%04x\n",
           (int)a.code, device[0]);

    printf("register_get(handle 0): property demands the value 0xabcd back "
           "(or at least an error code) ...\n");
    RegisterValue g;
    a = register_get(&t, 0, &g);
    printf("register_get(): code=%d value=0x%04x - no crash, defect not "
           "present\n", (int)a.code, g.value.u16);
    return 0;
}
