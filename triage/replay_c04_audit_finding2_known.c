/*
 * C04 finding 2: a well-formed table whose (only) area ends with the last
 * word of the 32-bit address space is rejected.
 *
 * Clause: "Initialisation succeeds exactly when the description has at least
 * one area, ... every register lies wholly inside one area ..." - all rules
 * hold here, so REG_INIT_SUCCESS is demanded.
 */
#include <inttypes.h>
#include <stdio.h>

#include <ufw/register-table.h>

int
main(void)
{
    static RegisterAtom mem[16];
    RegisterArea areas[] = {
        /* words 0xfffffff0 .. 0xffffffff: base + size == 2^32 */
        { .read = reg_mem_read, .write = reg_mem_write, .flags = REG_AF_RW,
          .base = 0xfffffff0u, .size = 16u, .mem = mem },
        REGISTER_AREA_END
    };
    RegisterEntry entries[] = {
        REG_U16(0, 0xfffffff0u, 0x1234u),
        REG_U32(1, 0xfffffff4u, 0x89abcdefu),
        REGISTER_ENTRY_END
    };
    RegisterTable t = { .area = areas, .entry = entries };

    printf("area     : 0xfffffff0..0xffffffff (16 words)\n");
    printf("registers: u16 at 0xfffffff0, u32 at 0xfffffff4 - both wholly inside\n");
    printf("demanded : REG_INIT_SUCCESS (%d)\n", REG_INIT_SUCCESS);
    RegisterInit rv = register_init(&t);
    printf("observed : code %d, entry %" PRIu32 "\n", rv.code, rv.pos.entry);

    int bad = 0;
    if (rv.code != REG_INIT_SUCCESS) {
        printf("VIOLATION: well-formed table rejected (%d = ENTRY_IN_MEMORY_HOLE"
               " is %d)\n", rv.code, REG_INIT_ENTRY_IN_MEMORY_HOLE);
        bad = 1;
    }

    /* Same area, no registers: init succeeds, but the area is unreachable. */
    RegisterEntry none[] = { REGISTER_ENTRY_END };
    RegisterTable t2 = { .area = areas, .entry = none };
    rv = register_init(&t2);
    RegisterAtom w = 0;
    RegisterAccess a = register_block_read(&t2, 0xfffffff0u, 1u, &w);
    printf("without registers: init code %d; block read of the area's first"
           " word: code %d (NOENTRY=%d, SUCCESS=%d demanded)\n",
           rv.code, a.code, REG_ACCESS_NOENTRY, REG_ACCESS_SUCCESS);
    if (rv.code != REG_INIT_SUCCESS || a.code != REG_ACCESS_SUCCESS) {
        bad = 1;
    }
    return bad;
}
