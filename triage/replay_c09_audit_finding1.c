/*
 * finding-1: with a small (but permitted) receive block, a frame that is too
 * large for the block is NOT answered with a receive-overflow response.
 *
 * Property C09: "A frame too large for the receive block is answered with a
 * receive-overflow response", quantified over "block sizes from
 * sizeof(frame)+1 upward".
 *
 * History: allocator block size = sizeof(RPFrame) + room, room in 1..15. A
 * perfectly valid request that is longer than `room` octets arrives. The
 * receiver detects the overflow (error.id == ENOMEM), but answers with the
 * META frame EHEADERENC ("your header is broken") instead of the ERXOVERFLOW
 * response carrying `room`, because it re-reads the header from the block,
 * which only kept the first `room` octets, instead of from the 16 octet
 * fallback header store that exists for exactly this purpose.
 *
 * Uses only the public API, links against the unchanged libufw.a.
 */
#include <errno.h>
#include <stdbool.h>
#include <stdint.h>
#include <stdio.h>
#include <stdlib.h>
#include <string.h>

#include <ufw/allocator.h>
#include <ufw/byte-buffer.h>
#include <ufw/crc/crc16-arc.h>
#include <ufw/endpoints.h>
#include <ufw/register-protocol.h>

static int failures;

static size_t
slip(const unsigned char *f, size_t n, unsigned char *out)
{
    size_t o = 0;
    for (size_t i = 0; i < n; ++i) {
        if (f[i] == 0xc0) { out[o++] = 0xdb; out[o++] = 0xdc; }
        else if (f[i] == 0xdb) { out[o++] = 0xdb; out[o++] = 0xdd; }
        else out[o++] = f[i];
    }
    out[o++] = 0xc0;
    return o;
}

static void
experiment(const char *name, RPEndpointType ep, size_t room,
           const unsigned char *frame, size_t flen, unsigned want_type)
{
    unsigned char wire[128], out[128], raw[64];
    size_t wn = 0, rn = 0;

    if (ep == RP_EP_TCP) {
        wire[wn++] = (unsigned char)flen;            /* varint length prefix */
        memcpy(wire + wn, frame, flen); wn += flen;
    } else {
        wn = slip(frame, flen, wire);
    }

    ByteBuffer src = BYTE_BUFFER(wire, wn);
    ByteBuffer snk = BYTE_BUFFER_EMPTY(out, sizeof out);
    BlockAllocator alloc = MAKE_STDHEAD_BLOCKALLOC(sizeof(RPFrame) + room);
    Source source; Sink sink; RegP p; RPMaybeFrame mf;

    source_from_buffer(&source, &src);
    sink_to_buffer(&sink, &snk);
    regp_init(&p);
    regp_use_allocator(&p, &alloc);
    regp_use_channel(&p, ep, source, sink);

    const int rc = regp_recv(&p, &mf);

    /* undo the framing of the answer */
    if (ep == RP_EP_TCP) {
        rn = snk.used ? out[0] : 0;
        memcpy(raw, out + 1, rn);
    } else {
        for (size_t i = 0; i < snk.used && out[i] != 0xc0; ++i) {
            unsigned char c = out[i];
            if (c == 0xdb) { c = (out[++i] == 0xdc) ? 0xc0 : 0xdb; }
            raw[rn++] = c;
        }
    }
    const unsigned type = rn >= 2 ? (raw[1] >> 4) & 0xfu : 99u;
    const unsigned meta = rn >= 2 ? (raw[0] >> 4) & 0xfu : 99u;
    const size_t hl = 12u + ((raw[0] & 2u) ? 2u : 0u) + ((raw[0] & 4u) ? 2u : 0u);
    const uint32_t carried = (rn >= hl + 4u)
        ? ((uint32_t)raw[hl] << 24 | (uint32_t)raw[hl+1] << 16 | (uint32_t)raw[hl+2] << 8 | raw[hl+3])
        : 0xffffffffu;

    printf("%s\n", name);
    printf("  did:      block = sizeof(RPFrame)+%zu, received a valid %zu octet request\n", room, flen);
    printf("  demanded: error.id ENOMEM(%d) and an ERXOVERFLOW response: type %u, code %u, payload %zu\n",
           ENOMEM, want_type, (unsigned)RP_RESP_ERXOVERFLOW, room);
    printf("  happened: rc=%d error.id=%d, answer: type %u, meta/code %u, payload %s",
           rc, mf.error.id, type, meta, carried == 0xffffffffu ? "none" : "");
    if (carried != 0xffffffffu) printf("%u", carried);
    printf("%s\n", (type == 15 && meta == RP_META_EHEADERENC) ? "  (= META EHEADERENC)" : "");

    if (!(type == want_type && meta == RP_RESP_ERXOVERFLOW && carried == room)) {
        printf("  => VIOLATION\n");
        failures++;
    } else {
        printf("  => ok\n");
    }
    regp_free(&p, mf.frame);
}

int
main(void)
{
    /* TCP: 16 bit read request, seq 0x0102, address 0x10, 4 words */
    const unsigned char tcp_read[12] = {
        0x01, 0x00, 0x01, 0x02, 0x00, 0x00, 0x00, 0x10, 0x00, 0x00, 0x00, 0x04 };

    /* Serial: same request with header CRC (14 octets) */
    unsigned char ser_read[14] = {
        0x03, 0x00, 0x01, 0x02, 0x00, 0x00, 0x00, 0x10, 0x00, 0x00, 0x00, 0x04 };
    const uint16_t crc = ufw_buffer_crc16_arc(ser_read, 12);
    ser_read[12] = crc >> 8; ser_read[13] = crc & 0xff;

    /* control: room = 12 holds the complete TCP header of a 13 octet frame */
    unsigned char tcp_long[13];
    memcpy(tcp_long, tcp_read, 12); tcp_long[12] = 0xaa;

    experiment("control: TCP, room 12, 13 octet frame", RP_EP_TCP, 12, tcp_long, 13, 1);
    experiment("A: TCP, room 11, 12 octet read request",  RP_EP_TCP, 11, tcp_read, 12, 1);
    experiment("B: TCP, room 1, 12 octet read request",   RP_EP_TCP, 1,  tcp_read, 12, 1);
    experiment("C: SLIP, room 13, 14 octet read request", RP_EP_SERIAL, 13, ser_read, 14, 1);

    printf("%d violation(s)\n", failures);
    return failures ? 1 : 0;
}
