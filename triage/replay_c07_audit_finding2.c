/*
 * finding-2: on a SERIAL channel the receiver accepts frames that declare no
 * header checksum (and no payload checksum).  The WITH-HEADER-CRC option bit
 * is itself unprotected, so a short burst / two-bit error inside the first
 * header word turns a valid, fully checksummed frame into a different frame
 * that is EXECUTED against memory and ACKNOWLEDGED.
 *
 * doc/regp.txt 5.1: "The WITH-HEADER-CRC option bit shall be enabled in these
 * channels.  The WITH-PAYLOAD-CRC option bit shall be enabled with messages
 * that carry payload."  Property: corrupted frames on a serial channel are
 * never executed nor acknowledged ("every burst of length 2..16 at every bit
 * offset"); receiver's verdict equals an independent reading of the document.
 *
 * The original frames are produced by the library's own request encoder.
 * Uses only the public API.
 */
#include <errno.h>
#include <stdint.h>
#include <stdio.h>
#include <string.h>

#include <ufw/toolchain.h>
#include <ufw/byte-buffer.h>
#include <ufw/endpoints.h>
#include <ufw/register-protocol.h>

static uint16_t mem16[64];
static uint8_t mem8[64];
static unsigned writes, reads;

static RPBlockAccess r16(uint32_t a, size_t n, uint16_t *b)
{ RPBlockAccess rv = RPB_BLOCK_ACCESS_INIT; reads++; memcpy(b, mem16 + a, n * 2); return rv; }
static RPBlockAccess w16(uint32_t a, size_t n, const uint16_t *b)
{ RPBlockAccess rv = RPB_BLOCK_ACCESS_INIT; writes++; memcpy(mem16 + a, b, n * 2);
  printf("    memory: 16-bit write of %zu words at address %u executed\n", n, (unsigned)a); return rv; }
static RPBlockAccess r8(uint32_t a, size_t n, uint8_t *b)
{ RPBlockAccess rv = RPB_BLOCK_ACCESS_INIT; reads++; memcpy(b, mem8 + a, n); return rv; }
static RPBlockAccess w8(uint32_t a, size_t n, const uint8_t *b)
{ RPBlockAccess rv = RPB_BLOCK_ACCESS_INIT; writes++; memcpy(mem8 + a, b, n);
  printf("    memory: 8-bit write of %zu octets at address %u executed\n", n, (unsigned)a); return rv; }

static unsigned char wire[256], back[256];
static ByteBuffer wireb, backb;

static void
dump(const char *t, const unsigned char *p, size_t n)
{
    printf("%s", t);
    for (size_t i = 0; i < n; ++i) printf(" %02x", p[i]);
    printf("\n");
}

static int
receive(RegP *local, const char *what)
{
    RPMaybeFrame mf;
    writes = reads = 0;
    const int rc = regp_recv(local, &mf);
    printf("  regp_recv rc=%d error.id=%d (%s)\n", rc, mf.error.id, mf.error.id ? strerror(mf.error.id) : "accepted as valid");
    regp_process(local, &mf);
    regp_free(local, mf.frame);
    dump("  response on wire:", back, backb.used);
    const int acked = backb.used >= 2 && (back[0] >> 4) == 0 && ((back[1] >> 4) == 3 || (back[1] >> 4) == 1);
    const int bad = writes || reads || acked || mf.error.id == 0;
    printf("  demanded: %s is rejected (one of the four fault classes; here a header fault -> META message), nothing executed, no ACK\n", what);
    printf("  observed: executed writes=%u reads=%u, %s => %s\n\n", writes, reads,
           acked ? "ACKNOWLEDGE response sent" : "no ack", bad ? "VIOLATION" : "ok");
    return bad;
}

int
main(void)
{
    int bad = 0;
    RegP remote, local;
    Source src; Sink snk, bsnk;

    byte_buffer_space(&wireb, wire, sizeof wire);
    byte_buffer_space(&backb, back, sizeof back);
    source_from_buffer(&src, &wireb);
    sink_to_buffer(&snk, &wireb);
    sink_to_buffer(&bsnk, &backb);

    regp_init(&remote);
    regp_use_channel(&remote, RP_EP_SERIAL, source_empty, snk);
    regp_init(&local);
    regp_use_channel(&local, RP_EP_SERIAL, src, bsnk);

    /* --- case A: solid 3-bit burst over the option bits ------------------ */
    printf("case A: receiver with 16-bit memory; sender emits regp_req_write8(address 5, 4 octets)\n");
    regp_use_memory16(&local, r16, w16);
    const uint8_t data[4] = { 0x11, 0x22, 0x33, 0x44 };
    regp_req_write8(&remote, 5, 4, data);
    dump("  wire (SLIP) as sent:   ", wire, wireb.used);
    /* first frame octet carries meta|options: 0x06 = HDCRC|PLCRC.  Flip the
     * three adjacent option bits (bits 8, 9, 10 of the first header word):
     * 0x06 -> 0x01 = WORD-SIZE-16 only, no checksums declared. */
    wire[0] ^= 0x07;
    dump("  wire after 3-bit burst:", wire, wireb.used);
    memset(mem16, 0, sizeof mem16);
    bad |= receive(&local, "the corrupted frame");
    printf("  memory16[5..8] now: %04x %04x %04x %04x (header crc, payload crc and the data were stored as words)\n\n",
           mem16[5], mem16[6], mem16[7], mem16[8]);

    /* --- case B: two-bit error in the first header word ------------------ */
    byte_buffer_reset(&wireb); byte_buffer_reset(&backb);
    printf("case B: receiver with 8-bit memory; sender emits regp_req_read8(address 9, 2 octets)\n");
    regp_use_memory8(&local, r8, w8);
    regp_req_read8(&remote, 9, 2);
    dump("  wire (SLIP) as sent:   ", wire, wireb.used);
    /* clear WITH-HEADER-CRC (0x02 in octet 0) and set type bit 1 (0x20 in
     * octet 1): READ-REQUEST -> WRITE-REQUEST without checksums; the two
     * header crc octets are now taken as a two octet payload. */
    wire[0] ^= 0x02;
    wire[1] ^= 0x20;
    dump("  wire after 2 bit flips:", wire, wireb.used);
    memset(mem8, 0, sizeof mem8);
    bad |= receive(&local, "the corrupted frame");
    printf("  memory8[9..10] now: %02x %02x (the former header checksum)\n", mem8[9], mem8[10]);

    return bad ? 1 : 0;
}
