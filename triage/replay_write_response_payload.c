/* Replay for C07.b / C08 (D30): a WRITE-RESPONSE that carries the 32-bit payload the protocol document prescribes
 * (EUNMAPPED, EACCESS, ERANGE, EINVALID, ERXOVERFLOW) is flagged EFAULT (implausible payload size) by the library's
 * own receiver.
 *   cc -I/repo/include -I/repo/_build/include replay_write_response_payload.c /repo/_build/libufw.a -o r && ./r */
#include <stdio.h>
#include <string.h>
#include <ufw/endpoints.h>
#include <ufw/register-protocol.h>

static unsigned char w_l2r[512], w_r2l[512];
static InstrumentableBuffer l2r, r2l;
static Source l2r_source, r2l_source;
static Sink l2r_sink, r2l_sink;
static RegP local, remote;
static uint16_t mem[8];

static RPBlockAccess rd(uint32_t a, size_t n, uint16_t *b)
{
    RPBlockAccess rv = RPB_BLOCK_ACCESS_INIT;
    if (a + n > 8) { rv.status = RP_RESP_EUNMAPPED; rv.address = 8; return rv; }
    memcpy(b, mem + a, n * 2); return rv;
}
static RPBlockAccess wr(uint32_t a, size_t n, const uint16_t *b)
{
    RPBlockAccess rv = RPB_BLOCK_ACCESS_INIT;
    if (a + n > 8) { rv.status = RP_RESP_EUNMAPPED; rv.address = 8; return rv; }
    memcpy(mem + a, b, n * 2); return rv;
}

int main(void)
{
    int bad = 0;
    for (int ep = 0; ep < 2; ep++) {
        const RPEndpointType t = ep ? RP_EP_SERIAL : RP_EP_TCP;
        regp_init(&local); regp_init(&remote);
        byte_buffer_space(&l2r.buffer, w_l2r, sizeof w_l2r);
        byte_buffer_space(&r2l.buffer, w_r2l, sizeof w_r2l);
        instrumentable_set_trace(&l2r, false); instrumentable_set_trace(&r2l, false);
        instrumentable_source(&l2r_source, &l2r); instrumentable_sink(&l2r_sink, &l2r);
        instrumentable_source(&r2l_source, &r2l); instrumentable_sink(&r2l_sink, &r2l);
        regp_use_memory16(&local, rd, wr);
        regp_use_channel(&local, t, r2l_source, l2r_sink);
        regp_use_channel(&remote, t, l2r_source, r2l_sink);

        uint16_t data[2] = { 1, 2 };
        RPMaybeFrame mf;
        regp_req_write16(&remote, 100, 2, data);             /* beyond the 8-word memory */
        regp_recv(&local, &mf);
        regp_process(&local, &mf);
        regp_free(&local, mf.frame);
        int rc = regp_recv(&remote, &mf);                    /* the answer: WRITE-RESPONSE, EUNMAPPED, 32-bit payload */
        printf("%s: recv rc=%d error.id=%d type=%d code=%d blocksize=%u payload=%zu octets\n", ep ? "serial" : "tcp", rc,
               mf.error.id, mf.frame ? (int)mf.frame->header.type : -1, mf.frame ? (int)mf.frame->header.meta.raw : -1,
               mf.frame ? (unsigned)mf.frame->header.blocksize : 0u, mf.frame ? mf.frame->payload.size : 0u);
        bad += !(rc == 0 && mf.error.id == 0 && mf.frame != NULL && mf.frame->header.meta.raw == RP_RESP_EUNMAPPED);
        regp_free(&remote, mf.frame);
    }
    puts(bad ? "FAIL: the library's own write error response does not pass its own receiver" : "PASS");
    return bad != 0;
}
