/* C08 finding 1: regp_recv() answers a non-request frame (a READ-RESPONSE, a
 * WRITE-RESPONSE or a META message) that hits an early error (receive buffer
 * cannot be allocated -> EBUSY path, frame larger than the receive block ->
 * ERXOVERFLOW path) with a frame of type META whose meta field carries the
 * *response* code (6 or 4) and, for ERXOVERFLOW, a 4-octet payload.
 *
 * Such a frame is not defined by doc/regp.txt (2.1.5: META codes are 1 and 2
 * only, META uses only the meta field; 2.1: responses/meta messages that
 * exhibit a problem shall not be answered automatically) and the library's own
 * receiver rejects it (EBADMSG) - violating "every frame the library emits is
 * accepted by the library's own receiver".
 *
 * Public API only; links against the unchanged libufw.a. */
#include <stdio.h>
#include <string.h>
#include <errno.h>
#include <stdint.h>

#include <ufw/allocator.h>
#include <ufw/byte-buffer.h>
#include <ufw/endpoints.h>
#include <ufw/register-protocol.h>

static int failalloc(void *d, void **m, size_t n) { (void)d; (void)n; *m = NULL; return -ENOMEM; }
static BlockAllocator noalloc = MAKE_GENERIC_BLOCKALLOC(NULL, failalloc, ufw_mfree, 128);

static void dump(const char *t, const unsigned char *p, size_t n)
{
    printf("    %s (%zu octets):", t, n);
    for (size_t i = 0; i < n; ++i) printf(" %02x", p[i]);
    printf("\n");
}

static int violations;

static void scenario(RPEndpointType ept, int overflow, int incoming /*0 read-resp, 1 write-resp, 2 meta*/)
{
    static const char *inname[] = { "READ-RESPONSE(ack+payload)", "WRITE-RESPONSE(ack)", "META(EHEADERCRC)" };
    unsigned char w1_[1024], w2_[256], w3_[256];
    ByteBuffer w1 = BYTE_BUFFER_EMPTY(w1_, sizeof w1_);
    ByteBuffer w2 = BYTE_BUFFER_EMPTY(w2_, sizeof w2_);
    ByteBuffer w3 = BYTE_BUFFER_EMPTY(w3_, sizeof w3_);
    Source src; Sink snk;

    printf("--- transport=%s, early error=%s, incoming frame=%s\n",
           ept == RP_EP_SERIAL ? "serial" : "tcp", overflow ? "ERXOVERFLOW" : "EBUSY", inname[incoming]);

    /* 1. A peer emits a perfectly valid non-request frame. */
    RegP peer; regp_init(&peer);
    sink_to_buffer(&snk, &w1);
    regp_use_channel(&peer, ept, source_empty, snk);
    RPFrame req; memset(&req, 0, sizeof req);
    req.header.sequence = 0x0102; req.header.address = 0x1000;
    static uint16_t words[200];
    int rc;
    if (incoming == 0) {
        req.header.type = RP_FRAME_READ_REQUEST;
        rc = regp_resp_ack(&peer, &req, words, overflow ? 200 : 2);
    } else if (incoming == 1) {
        if (overflow) { printf("    (skipped: an acknowledged write response cannot be oversized)\n"); return; }
        req.header.type = RP_FRAME_WRITE_REQUEST;
        rc = regp_resp_ack(&peer, &req, NULL, 0);
    } else {
        if (overflow) { printf("    (skipped: a meta message cannot be oversized)\n"); return; }
        rc = regp_resp_meta(&peer, RP_META_EHEADERCRC);
    }
    if (rc != 0) { printf("    setup failed rc=%d\n", rc); violations++; return; }

    /* 2. Our instance receives it, but runs into an early error. */
    RegP me; regp_init(&me);
    source_from_buffer(&src, &w1); sink_to_buffer(&snk, &w2);
    regp_use_channel(&me, ept, src, snk);
    if (!overflow) regp_use_allocator(&me, &noalloc);   /* default block (128) is too small for 400 octets */
    RPMaybeFrame mf;
    rc = regp_recv(&me, &mf);
    printf("    regp_recv: rc=%d error.id=%d (%s)\n", rc, mf.error.id, overflow ? "ENOMEM expected" : "EBUSY expected");
    if (mf.frame) regp_free(&me, mf.frame);

    printf("    property/doc demand: nothing is emitted in reply to a response/meta frame,\n"
           "    and whatever is emitted must be accepted by the library's own receiver.\n");
    if (w2.used == 0) { printf("    library emitted nothing: OK\n"); return; }
    dump("library emitted", w2.data, w2.used);

    /* 3. Does the library's own receiver accept what was emitted? */
    RegP rx; regp_init(&rx);
    source_from_buffer(&src, &w2); sink_to_buffer(&snk, &w3);
    regp_use_channel(&rx, ept, src, snk);
    RPMaybeFrame mf2;
    rc = regp_recv(&rx, &mf2);
    printf("    own receiver: rc=%d error.id=%d%s\n", rc, mf2.error.id,
           mf2.error.id == EBADMSG ? " (EBADMSG: header rejected)" : "");
    if (mf2.error.id != 0 || rc != 0) {
        violations++;
        printf("    VIOLATION: emitted frame is rejected by the library's own receiver");
        if (w3.used) { printf(", which in turn answers with:\n"); dump("meta EHEADERENC", w3.data, w3.used); }
        else printf("\n");
    } else {
        printf("    accepted as type=%d meta=%u blocksize=%u\n", mf2.frame->header.type,
               mf2.frame->header.meta.raw, mf2.frame->header.blocksize);
        violations++; /* still an unsolicited answer to a response */
    }
    if (mf2.frame) regp_free(&rx, mf2.frame);
}

int main(void)
{
    for (int t = 0; t < 2; ++t)
        for (int o = 0; o < 2; ++o)
            for (int i = 0; i < 3; ++i)
                scenario(t ? RP_EP_TCP : RP_EP_SERIAL, o, i);
    printf("\n%d violating scenario(s)\n", violations);
    return violations ? 1 : 0;
}
