/*
 * finding-1: rfc1055_decode() mistakes a SOURCE error -EILSEQ for an invalid
 * escape sequence: it switches its state machine to "skip up to the next
 * delimiter", although no octet was consumed, let alone an invalid escape seen.
 * After the source recovered, a complete and well-formed frame is silently
 * discarded. With any other error code (-EIO, ...) the same history delivers
 * every frame.
 *
 * Property C12: "source or sink errors are returned unchanged" (the value is,
 * but the decoder additionally acts on it), "concatenated encodings decode to
 * the same payload sequence in order", "in classic mode every well-formed
 * frame after the next delimiter is delivered intact".
 *
 * Public API only; unchanged library.
 */
#include <errno.h>
#include <stdbool.h>
#include <stdio.h>
#include <string.h>

#include <ufw/endpoints.h>
#include <ufw/rfc1055.h>

typedef struct {
    const unsigned char *data;
    size_t n, pos;
    size_t failat;
    int failrc;
    bool failed;
} Src;

/* Octet source that fails exactly once, at position failat, without consuming
 * anything, and works normally afterwards ("fails and then recovers"). */
static int
src_octet(void *driver, void *out)
{
    Src *s = driver;
    if (!s->failed && s->pos == s->failat) {
        s->failed = true;
        return s->failrc;
    }
    if (s->pos >= s->n) {
        return -ENODATA;
    }
    *(unsigned char*)out = s->data[s->pos++];
    return 1;
}

static int
run(const char *title, bool sof, const unsigned char *stream, size_t n,
    size_t failat, int failrc, const char *const *expect, int nexpect)
{
    Src drv = { stream, n, 0, failat, failrc, false };
    Source source = OCTET_SOURCE_INIT(src_octet, &drv);
    RFC1055Context ctx;
    rfc1055_context_init(&ctx, sof ? RFC1055_WITH_SOF : RFC1055_DEFAULT);

    printf("%s\n  stream:", title);
    for (size_t i = 0; i < n; ++i) {
        if (i == failat) printf(" <src returns %d once>", failrc);
        printf(" %02x", stream[i]);
    }
    printf("\n");

    int delivered = 0, bad = 0;
    unsigned char mem[32];
    ByteBuffer b = BYTE_BUFFER_EMPTY(mem, sizeof mem);
    Sink sink;
    sink_to_buffer(&sink, &b);
    for (int call = 1; call < 12; ++call) {
        /* The receive buffer is cleared when a frame was delivered; after an
         * error of the source the caller keeps what it has and calls again. */
        const int rc = rfc1055_decode(&ctx, &source, &sink);
        printf("  decode #%d -> %d, payload \"%.*s\" (source position %zu)\n",
               call, rc, (int)b.used, (const char*)mem, drv.pos);
        if (rc == 1) {
            if (delivered >= nexpect
                || strlen(expect[delivered]) != b.used
                || memcmp(expect[delivered], mem, b.used) != 0)
            {
                printf("     ^^^ property demands frame \"%s\" here\n",
                       delivered < nexpect ? expect[delivered] : "(none)");
                bad = 1;
            }
            delivered++;
            byte_buffer_clear(&b);
        } else if (rc == -ENODATA) {
            break;
        } else if (rc != failrc) {
            printf("     ^^^ unexpected return code\n");
            bad = 1;
        }
    }
    if (delivered != nexpect) {
        printf("  delivered %d frames, the stream holds %d well-formed frames\n",
               delivered, nexpect);
        bad = 1;
    }
    printf("  => %s\n\n", bad ? "VIOLATION" : "ok");
    return bad;
}

int
main(void)
{
    static const unsigned char classic[] = {
        'A', 'B', 0xc0, 'C', 'D', 0xc0, 'E', 0xc0 };
    static const unsigned char withsof[] = {
        0xc0, 'A', 'B', 0xc0, 0xc0, 'C', 'D', 0xc0, 0xc0, 'E', 0xc0 };
    static const char *const frames[] = { "AB", "CD", "E" };
    int bad = 0, ctl = 0;

    printf("The source fails once between two frames (nothing consumed) and\n"
           "then recovers. Demanded: the error is returned unchanged and all\n"
           "three well-formed frames AB, CD, E are delivered in order.\n\n");

    ctl |= run("control: classic mode, source error -EIO before frame CD",
               false, classic, sizeof classic, 3, -EIO, frames, 3);
    bad |= run("classic mode, source error -EILSEQ before frame CD",
               false, classic, sizeof classic, 3, -EILSEQ, frames, 3);
    ctl |= run("control: classic mode, source error -EIO in the middle of frame CD",
               false, classic, sizeof classic, 4, -EIO, frames, 3);
    bad |= run("classic mode, source error -EILSEQ in the middle of frame CD",
               false, classic, sizeof classic, 4, -EILSEQ, frames, 3);
    ctl |= run("control: start-of-frame mode, -EIO behind the SOF of frame CD",
               true, withsof, sizeof withsof, 5, -EIO, frames, 3);
    bad |= run("start-of-frame mode, -EILSEQ behind the SOF of frame CD",
               true, withsof, sizeof withsof, 5, -EILSEQ, frames, 3);

    if (ctl) {
        printf("control runs failed: demo is broken\n");
        return 2;
    }
    if (bad) {
        printf("FINDING REPRODUCED: a source error -EILSEQ makes the decoder\n"
               "discard a well-formed frame that was never corrupted.\n");
        return 1;
    }
    printf("not reproduced\n");
    return 0;
}
