/*
 * finding-1: the varint length prefix is read with single-shot octet calls
 * that hand -EAGAIN / -EINTR of the source through to the caller AFTER part
 * of the prefix was consumed. The fixed-width kinds read their prefix with
 * the retrying source_get_chunk() and are not affected.
 *
 * Stream: two frames on one stream, payload lengths 300 and 2.
 * Source: a chunk source that fragments every read (one octet per call) and,
 *         being non-blocking, answers -EAGAIN once between two fragments
 *         (the endpoint contract, src/endpoints/core.c:25-29, names -EAGAIN
 *         and -EINTR as "retry" answers).
 * Caller: decodes frame after frame; a result of -EAGAIN/-EINTR is answered
 *         by calling again (all a caller can do with these codes).
 *
 * Property C13: "consecutive frames on one stream decode in order however the
 * source fragments its reads".
 */
#include <stdio.h>
#include <string.h>
#include <stdint.h>

#include <ufw/compat/errno.h>
#include <ufw/compat/ssize-t.h>
#include <ufw/byte-buffer.h>
#include <ufw/endpoints.h>
#include <ufw/length-prefix.h>

struct drv {
    const unsigned char *mem;
    size_t len, pos;
    int tick;               /* every second call: "nothing right now" */
    int code;               /* -EAGAIN or -EINTR */
};

static ssize_t
nonblocking_read(void *driver, void *data, size_t n)
{
    struct drv *d = driver;
    (void)n;
    if (d->pos >= d->len) {
        return -ENODATA;
    }
    if ((d->tick++ & 1) == 1) {
        return d->code;     /* next fragment has not arrived yet */
    }
    *(unsigned char *)data = d->mem[d->pos++];   /* one octet per read */
    return 1;
}

static size_t
put_prefix(LengthPrefixKind k, unsigned char *p, size_t n)
{
    /* reference encoding, independent of the library */
    switch (k) {
    case LENP_VARIABLE: {
        size_t i = 0;
        do {
            unsigned char o = n & 0x7f;
            n >>= 7;
            p[i++] = o | (n ? 0x80 : 0);
        } while (n);
        return i;
    }
    case LENP_LE_16BIT: p[0] = n & 0xff; p[1] = n >> 8; return 2;
    default: return 0;
    }
}

static const char *decoder[] = {
    "flenp_memory_from_source", "flenp_buffer_from_source",
    "flenp_decode_source_to_sink" };

static int
run(LengthPrefixKind k, const char *name, int code, int which)
{
    static unsigned char stream[400];
    static const size_t want[2] = { 300, 2 };
    size_t off[2];
    size_t len = 0;
    for (int f = 0; f < 2; f++) {
        len += put_prefix(k, stream + len, want[f]);
        off[f] = len;
        for (size_t i = 0; i < want[f]; i++) {
            stream[len++] = (unsigned char)(0x10 * (f + 1) + i % 13);
        }
    }

    struct drv d = { .mem = stream, .len = len, .pos = 0, .tick = 0, .code = code };
    Source src;
    chunk_source_init(&src, nonblocking_read, &d);

    int bad = 0;
    printf("kind %s, %s, source answers %s between fragments:\n", name,
           decoder[which], code == -EAGAIN ? "-EAGAIN" : "-EINTR");
    for (int f = 0; f < 2; f++) {
        unsigned char dest[512];
        ssize_t rc;
        int retries = 0;
        do {
            ByteBuffer b = BYTE_BUFFER_EMPTY(dest, sizeof dest);
            Sink snk;
            sink_to_buffer(&snk, &b);
            switch (which) {
            case 0: rc = flenp_memory_from_source(k, &src, dest, sizeof dest); break;
            case 1: rc = flenp_buffer_from_source(k, &src, &b); break;
            default: rc = flenp_decode_source_to_sink(k, &src, &snk); break;
            }
            if (rc == -EAGAIN || rc == -EINTR) {
                retries++;
            }
        } while ((rc == -EAGAIN || rc == -EINTR) && retries < 1000);
        const int ok = (rc == (ssize_t)want[f])
            && memcmp(dest, stream + off[f], want[f]) == 0;
        printf("  frame %d: demanded %zu payload octets; got rc=%zd after %d "
               "retry signal(s) handed to the caller -> %s\n",
               f, want[f], rc, retries, ok ? "ok" : "WRONG");
        if (!ok) {
            bad = 1;
        }
    }
    return bad;
}

int
main(void)
{
    /* The twin: 16 bit prefix, same source. Decodes in order. */
    int twin = 0, v1 = 0, v2 = 0;
    for (int which = 0; which < 3; which++) {
        twin |= run(LENP_LE_16BIT, "LE_16BIT", -EAGAIN, which);
        v1 |= run(LENP_VARIABLE, "VARIABLE", -EAGAIN, which);
        v2 |= run(LENP_VARIABLE, "VARIABLE", -EINTR, which);
    }

    if (twin) {
        printf("unexpected: the fixed width kind failed as well\n");
    }
    if (v1 || v2) {
        printf("DEFECT: with the varint kind the frames are not decoded in "
               "order: the first call returns the retry signal after it has "
               "consumed the first prefix octet (0xac of 0xac 0x02 = 300); the "
               "repeated call takes the prefix's second octet (0x02) as a "
               "complete prefix and returns two octets of frame 0's payload; "
               "the stream is out of step from there on.\n");
        return 1;
    }
    printf("no defect observed\n");
    return 0;
}
