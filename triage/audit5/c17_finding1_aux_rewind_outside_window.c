/*
 * C17 finding 1: sts_n_aux() and sts_drain_aux() write outside the auxiliary
 * buffer's designated region [offset, used) when offset > 0, and leave the
 * caller's ByteBuffer descriptor changed. sts_some_aux()/sts_atmost_aux()
 * (the twins) stay inside the region.
 *
 * Public API only; links against _build/libufw.a.
 */
#include <stdio.h>
#include <string.h>

#include <ufw/byte-buffer.h>
#include <ufw/endpoints.h>

static int failures;

static void
show(const char *label, const unsigned char *m, size_t n)
{
    printf("    %-8s", label);
    for (size_t i = 0; i < n; ++i) {
        printf(" %02x", m[i]);
    }
    printf("\n");
}

static void
run(const char *name, int which, size_t off, size_t len)
{
    /* Memory block that holds other data around the scratch window. */
    unsigned char mem[12], before[12];
    for (size_t i = 0; i < sizeof mem; ++i) {
        mem[i] = (unsigned char)(0xC0u + i);   /* "foreign" octets */
    }
    memcpy(before, mem, sizeof mem);

    unsigned char text[] = "abcdefgh";
    unsigned char out[16];
    ByteBuffer sb = BYTE_BUFFER(text, 8);
    ByteBuffer kb = BYTE_BUFFER_EMPTY(out, sizeof out);
    Source src;
    Sink snk;
    source_from_buffer(&src, &sb);
    sink_to_buffer(&snk, &kb);

    /* designated region: mem[off] .. mem[off+len-1] */
    ByteBuffer aux = BYTE_BUFFER_INIT(mem, sizeof mem, off + len, off);

    ssize_t rc;
    switch (which) {
    case 0: rc = sts_atmost_aux(&src, &snk, &aux, 6); break;
    case 1: rc = sts_n_aux(&src, &snk, &aux, 6); break;
    default: rc = sts_drain_aux(&src, &snk, &aux); break;
    }

    printf("%s, window = mem[%zu..%zu] (offset %zu, used %zu): rc = %zd, sink got \"%.*s\"\n",
           name, off, off + len - 1, off, off + len, rc, (int)kb.used, out);
    show("before:", before, sizeof before);
    show("after:", mem, sizeof mem);

    int outside = 0;
    for (size_t i = 0; i < sizeof mem; ++i) {
        if ((i < off || i >= off + len) && mem[i] != before[i]) {
            printf("    mem[%zu] is outside the window and changed %02x -> %02x\n",
                   i, before[i], mem[i]);
            outside++;
        }
    }
    const int desc = (aux.offset != off || aux.used != off + len);
    if (desc) {
        printf("    caller's descriptor changed: offset %zu -> %zu, used %zu -> %zu\n",
               off, aux.offset, off + len, aux.used);
    }
    if (outside || desc) {
        printf("    => VIOLATION: property demands that octets outside the designated region stay untouched\n");
        if (which != 0) {
            failures++;
        } else {
            failures += 100; /* the control must be clean */
        }
    } else {
        printf("    => ok, nothing outside the window touched\n");
    }
}

int
main(void)
{
    printf("Property C17: plumbing with an auxiliary buffer moves the octets \"without touching\n"
           "octets outside the auxiliary buffer's designated region\".\n\n");
    run("sts_atmost_aux (control)", 0, 4, 2);
    run("sts_n_aux", 1, 4, 2);
    run("sts_n_aux, window of size 1", 1, 1, 1);
    run("sts_drain_aux", 2, 5, 3);
    printf("\n%d violating calls\n", failures);
    return failures ? 1 : 0;
}
