/*
 * C17 finding 2: an auxiliary buffer whose window [offset, used) is empty -
 * e.g. the natural BYTE_BUFFER_EMPTY(mem, 16) "16 octets of free scratch
 * space" - makes sts_n_aux()/sts_drain_aux() spin forever (no octet moved, no
 * error returned, an octet driver is never even called), or, with a file
 * descriptor source, report the end of a stream that still has data.
 *
 * The twins guard this case: sts_atmost_via_sink() answers -ENOMEM and
 * sts_atmost_via_source() -ENODATA for an empty window (core.c:271, 288), and
 * persistent-storage got "a zero-sized auxiliary buffer must not stall" fixed
 * (56ca51a).
 *
 * Public API only; links against _build/libufw.a. Each case runs in a child
 * with a 2 second alarm.
 */
#include <signal.h>
#include <stdio.h>
#include <string.h>
#include <sys/wait.h>
#include <unistd.h>

#include <ufw/compat/errno.h>
#include <ufw/byte-buffer.h>
#include <ufw/endpoints.h>

static unsigned long driver_calls;
static const char *text = "abcdefgh";
static size_t pos;

static int
octet_driver(void *driver, void *data)
{
    (void)driver;
    driver_calls++;
    if (pos >= 8) {
        return -ENODATA;
    }
    *(unsigned char*)data = (unsigned char)text[pos++];
    return 1;
}

static void
on_alarm(int sig)
{
    (void)sig;
    static const char msg[] =
        "    => still inside the call after 2 s: neither the requested count nor an error (HANG)\n";
    (void)!write(1, msg, sizeof msg - 1);
    _exit(3);
}

static int
child(int which)
{
    unsigned char scratch[16], out[16];
    ByteBuffer aux = BYTE_BUFFER_EMPTY(scratch, sizeof scratch); /* used = offset = 0 */
    ByteBuffer kb = BYTE_BUFFER_EMPTY(out, sizeof out);
    Sink snk;
    sink_to_buffer(&snk, &kb);
    signal(SIGALRM, on_alarm);
    alarm(2);

    if (which == 0) {
        Source src;
        octet_source_init(&src, octet_driver, NULL);
        printf("case a: sts_n_aux(octet source \"abcdefgh\", buffer sink, BYTE_BUFFER_EMPTY(scratch,16), 4)\n");
        fflush(stdout);
        const ssize_t rc = sts_n_aux(&src, &snk, &aux, 4);
        printf("    returned %zd, sink holds %zu octets, driver calls %lu\n", rc, kb.used, driver_calls);
        return (rc == 4 && kb.used == 4) || rc < 0 ? 0 : 1;
    }
    if (which == 1) {
        unsigned char data[] = "abcdefgh";
        ByteBuffer sb = BYTE_BUFFER(data, 8);
        Source src;
        source_from_buffer(&src, &sb);
        printf("case b: sts_drain_aux(source_from_buffer \"abcdefgh\", buffer sink, BYTE_BUFFER_EMPTY(scratch,16))\n");
        fflush(stdout);
        const ssize_t rc = sts_drain_aux(&src, &snk, &aux);
        printf("    returned %zd, sink holds %zu octets\n", rc, kb.used);
        return (rc == -ENODATA && kb.used == 8) ? 0 : 1;
    }
    {
        int fd[2];
        if (pipe(fd) != 0) {
            return 2;
        }
        (void)!write(fd[1], "abcdefgh", 8);
        Source src;
        source_from_filedesc(&src, &fd[0]);
        printf("case c: sts_n_aux(source_from_filedesc with 8 octets waiting in the pipe, buffer sink,\n"
               "        BYTE_BUFFER_EMPTY(scratch,16), 4)\n");
        fflush(stdout);
        const ssize_t rc = sts_n_aux(&src, &snk, &aux, 4);
        printf("    returned %zd (%s), sink holds %zu octets\n", rc,
               rc == -ENODATA ? "-ENODATA: \"source ran out of data permanently\"" : "?", kb.used);
        if (rc == -ENODATA) {
            unsigned char c = 0;
            const ssize_t again = source_get_chunk(&src, &c, 1);
            printf("    ...but the source is not at its end: source_get_chunk(.., 1) = %zd, octet '%c'\n", again, c);
            printf("    => VIOLATION: an end of stream is reported that does not exist; nothing was moved\n");
            return 1;
        }
        return (rc == 4 && kb.used == 4) || rc == -EINVAL ? 0 : 1;
    }
}

int
main(void)
{
    int bad = 0;
    printf("Property C17: counted / drain plumbing with an auxiliary buffer \"moves exactly the requested\n"
           "count, or everything up to the source's end\"; \"when it fails, an error is returned\".\n"
           "Expected for an empty window: an error (like -EINVAL/-ENOMEM), or use of the free space.\n\n");
    for (int which = 0; which < 3; ++which) {
        fflush(stdout);
        const pid_t p = fork();
        if (p == 0) {
            const int rc = child(which);
            fflush(stdout);
            _exit(rc);
        }
        int status = 0;
        waitpid(p, &status, 0);
        if (!WIFEXITED(status) || WEXITSTATUS(status) != 0) {
            bad++;
        }
    }
    printf("\n%d of 3 cases violate the property\n", bad);
    return bad ? 1 : 0;
}
