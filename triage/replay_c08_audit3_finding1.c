/*
 * C08 finding 1: regp_resp_ack() takes the word size of the acknowledgement
 * from the instance's memory type instead of from the request it answers.
 *
 * History: a server instance whose standard memory is 16 bit wide (that is
 * also what regp_init() sets up) receives an 8-bit read request - emitted by
 * the library's own regp_req_read8() - and a custom handler (the documented
 * place between regp_recv() and regp_process()) serves it from an octet
 * buffer with regp_resp_ack(p, frame, octets, 4).
 *
 * The property (and "3.1 Responses in Detail": responses mirror all parts of
 * the request's header except type, checksums and meta) demands a READ-RESPONSE
 * without WORD-SIZE-16, block size 4, 4 payload octets. The sibling response
 * functions all get this right (they pass explicit semantics).
 *
 * What happens: the response has WORD-SIZE-16 set, announces 4 words and
 * carries 8 octets - the 4 the handler passed plus 4 octets read from behind
 * its buffer (ASan: stack-buffer-overflow in the CRC / the sink).
 */
#include <stdint.h>
#include <stdio.h>
#include <string.h>

#include <ufw/toolchain.h>
#include <ufw/endpoints.h>
#include <ufw/register-protocol.h>

static unsigned char c2s[256], s2c[256];

static void
dump(const char *t, const unsigned char *d, size_t n)
{
    printf("%s (%zu octets):", t, n);
    for (size_t i = 0; i < n; ++i) printf(" %02x", d[i]);
    printf("\n");
}

static int
run(RPEndpointType ep, const char *name)
{
    ByteBuffer up, down;
    Source srv_src, cl_src;
    Sink srv_sink, cl_sink;
    RegP client, server;
    int bad = 0;

    byte_buffer_space(&up, c2s, sizeof(c2s));
    byte_buffer_space(&down, s2c, sizeof(s2c));
    sink_to_buffer(&cl_sink, &up);     source_from_buffer(&srv_src, &up);
    sink_to_buffer(&srv_sink, &down);  source_from_buffer(&cl_src, &down);

    regp_init(&client);
    regp_use_channel(&client, ep, cl_src, cl_sink);
    regp_init(&server);               /* memory: 16 bit (void memory) */
    regp_use_channel(&server, ep, srv_src, srv_sink);

    printf("--- %s ---\n", name);
    regp_req_read8(&client, 0x00000010u, 4u);
    dump("request on the wire ", c2s, up.used);

    RPMaybeFrame mf;
    int rc = regp_recv(&server, &mf);
    printf("server: regp_recv rc=%d error.id=%d 16bit-semantics=%d blocksize=%u\n",
           rc, mf.error.id, (int)regp_is_16bitsem(mf.frame),
           (unsigned)mf.frame->header.blocksize);

    /* custom handler: this window is served from an octet buffer */
    struct { uint8_t data[4]; uint8_t behind[4]; } mem =
        { { 0x11, 0x22, 0x33, 0x44 }, { 0xde, 0xad, 0xbe, 0xef } };
    rc = regp_resp_ack(&server, mf.frame, mem.data, 4u);
    regp_free(&server, mf.frame);
    dump("response on the wire", s2c, down.used);

    rc = regp_recv(&client, &mf);
    if (rc < 0 || mf.frame == NULL) {
        printf("client: regp_recv rc=%d\n", rc);
        return 1;
    }
    const RPFrame *f = mf.frame;
    printf("client: error.id=%d type=%d options=0x%x blocksize=%u payload=%zu octets\n",
           mf.error.id, (int)f->header.type, (unsigned)f->header.options,
           (unsigned)f->header.blocksize, f->payload.size);
    printf("demanded: READ-RESPONSE, WORD-SIZE-16 clear (as in the request), "
           "blocksize 4, payload 11 22 33 44\n");
    if (regp_is_16bitsem(f)) {
        printf("VIOLATION: WORD-SIZE-16 is set in the answer to an 8-bit request\n");
        bad = 1;
    }
    if (f->payload.size != 4u || memcmp(f->payload.data, mem.data, 4u) != 0) {
        dump("VIOLATION: payload is", f->payload.data, f->payload.size);
        printf("           (octets behind the handler's buffer went out)\n");
        bad = 1;
    }
    regp_free(&client, mf.frame);
    return bad;
}

int
main(void)
{
    int bad = 0;
    bad |= run(RP_EP_TCP, "TCP");
    bad |= run(RP_EP_SERIAL, "serial");
    printf(bad ? "FINDING REPRODUCED\n" : "not reproduced\n");
    return bad;
}
