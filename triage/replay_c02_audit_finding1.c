/*
 * C02 finding 1: block write into a write-only area that has no read()
 * function crashes (NULL function pointer call) as soon as the block overlaps
 * a register of that area.
 *
 * Public API only. Exits 1 (from the SIGSEGV handler) on the unchanged library.
 */
#include <signal.h>
#include <stdio.h>
#include <string.h>
#include <unistd.h>

#include <ufw/register-table.h>

static RegisterAtom device[4];

static RegisterAccess
dev_write(RegisterArea *a, const RegisterAtom *src, RegisterOffset off, RegisterOffset n)
{
    RegisterAccess rv = REG_ACCESS_RESULT_INIT;
    (void)a;
    memcpy(device + off, src, n * sizeof(RegisterAtom));
    return rv;
}

static void
on_segv(int sig)
{
    static const char msg[] =
        "  -> SIGSEGV inside register_block_write(): ra_malformed_write() called the\n"
        "     area's NULL read() function to fetch the register's current content.\n"
        "FINDING 1 REPRODUCED: property demands SUCCESS (word mapped, area writeable,\n"
        "register unconstrained) and no access outside the buffers; library crashed.\n";
    (void)sig;
    (void)!write(2, msg, sizeof msg - 1);
    _exit(1);
}

int
main(void)
{
    /* What CUSTOM_AREA_WO(dev_write, 0x10, 4) is meant to produce (the macro
     * itself does not compile: it passes 4 arguments to MAKE_CUSTOM_AREA). */
    RegisterArea areas[] = {
        { .read = NULL, .write = dev_write, .flags = REG_AF_WRITEABLE,
          .base = 0x10, .size = 4, .mem = NULL },
        REGISTER_AREA_END
    };
    RegisterEntry entries[] = {
        REG_U16(0, 0x10, 7),
        REGISTER_ENTRY_END
    };
    RegisterTable t = { .area = areas, .entry = entries };
    RegisterAtom buf[1] = { 0x1234 };
    RegisterAccess a;

    RegisterInit ri = register_init(&t);
    printf("register_init: code=%d (0 = success); default loaded through write(): device[0]=%u\n",
           ri.code, device[0]);
    if (ri.code != REG_INIT_SUCCESS)
        return 2;

    /* Control: a word of the same area that belongs to no register. */
    a = register_block_write(&t, 0x11, 1, buf);
    printf("block write 1 word @0x11 (no register there): code=%d, device[1]=0x%04x\n",
           a.code, device[1]);

    signal(SIGSEGV, on_segv);
    printf("block write 1 word @0x10 (u16 register, trivial constraint) ...\n");
    fflush(stdout);
    a = register_block_write(&t, 0x10, 1, buf);
    printf("  returned code=%d address=0x%x device[0]=0x%04x\n", a.code, a.address, device[0]);
    if (a.code == REG_ACCESS_SUCCESS && device[0] == 0x1234) {
        printf("property holds here (not reproduced)\n");
        return 0;
    }
    printf("FINDING 1 REPRODUCED (unexpected result)\n");
    return 1;
}
