#include <stdio.h>
#include <string.h>
#include <stdlib.h>
#include <ufw/register-table.h>
#include <ufw/register-protocol.h>
#include <ufw/endpoints.h>
#include <ufw/byte-buffer.h>
#include <ufw/variable-length-integer.h>
#include <ufw/sx.h>
#include <ufw/compat/errno.h>

static int cb(RegisterTable *t, RegisterHandle h, void *arg){ (void)t; printf(" visit %u", h); (*(int*)arg)++; return 0; }

/* scripted chunk source: returns at most 2 octets per call */
struct scr { const unsigned char *d; size_t n, pos; };
static ssize_t short_src(void *drv, void *buf, size_t n){ struct scr *s = drv; if (s->pos >= s->n) return -ENODATA; size_t k = n > 2 ? 2 : n; if (k > s->n - s->pos) k = s->n - s->pos; memcpy(buf, s->d + s->pos, k); s->pos += k; return (ssize_t)k; }
static int octet_src(void *drv, void *buf){ struct scr *s = drv; if (s->pos >= s->n) return -ENODATA; *(unsigned char*)buf = s->d[s->pos++]; return 1; }

int main(int argc, char **argv)
{
    const char *w = argc > 1 ? argv[1] : "";
    if (!strcmp(w, "d2")) {
        RegisterTable t = {
            .area = (RegisterArea[]) { MEMORY_AREA(0x10, 8), REGISTER_AREA_END },
            .entry = (RegisterEntry[]) { REG_U64(0, 0x10, 1), REGISTER_ENTRY_END } };
        register_init(&t);
        RegisterAtom *buf = malloc(1 * sizeof *buf); buf[0] = 0xffff;
        printf("D2: block write (A+1, n=1) into u64 interior\n"); fflush(stdout);
        RegisterAccess a = register_block_write(&t, 0x11, 1, buf);
        printf("D2: code %d\n", a.code);
    }
    if (!strcmp(w, "d3")) {
        RegisterTable t = {
            .area = (RegisterArea[]) { MEMORY_AREA_WO(0x10, 8), REGISTER_AREA_END },
            .entry = (RegisterEntry[]) { REG_U16(0, 0x10, 1), REGISTER_ENTRY_END } };
        register_init(&t);
        RegisterAtom *buf = malloc(2 * sizeof *buf);
        printf("D3: block read (0x14, n=2) of write-only area into exact 2-atom heap block\n"); fflush(stdout);
        RegisterAccess a = register_block_read(&t, 0x14, 2, buf);
        printf("D3: code %d\n", a.code);
    }
    if (!strcmp(w, "d4")) {
        RegisterTable t = {
            .area = (RegisterArea[]) { MEMORY_AREA(0x10, 16), REGISTER_AREA_END },
            .entry = (RegisterEntry[]) { REG_U16(0, 0x10, 1), REG_U16(1, 0x14, 1), REG_U16(2, 0x18, 1), REGISTER_ENTRY_END } };
        register_init(&t);
        int n = 0;
        printf("D4: foreach_in(0x12, 8) [gap start; registers at 0x14,0x18 overlap]:");
        register_foreach_in(&t, 0x12, 8, cb, &n);
        printf("  -> %d visited (expect 2)\n", n);
    }
    if (!strcmp(w, "d16")) {
        unsigned char *m = malloc(2); m[0] = 0x80; m[1] = 0x80;
        ByteBuffer b; byte_buffer_use(&b, m, 2); uint32_t v;
        printf("D16: varint_decode_u32 of 80 80 in exact 2-octet block\n"); fflush(stdout);
        int rc = varint_decode_u32(&b, &v);
        printf("D16: rc %d\n", rc);
    }
    if (!strcmp(w, "d17")) {
        static const unsigned char d[] = {1,2,3,4,5,6,7,8};
        struct scr s = { d, 8, 0 }; Source src; octet_source_init(&src, octet_src, &s);
        unsigned char out[4] = {0};
        ssize_t rc = source_get_chunk(&src, out, 3);
        printf("D17: source_get_chunk(octet source, 3) -> %zd, consumed %zu octets (expect 3,3)\n", rc, s.pos);
    }
    if (!strcmp(w, "d18")) {
        static const unsigned char d[] = {1,2,3,4,5,6,7,8};
        struct scr s = { d, 8, 0 }; Source src; chunk_source_init(&src, short_src, &s);
        unsigned char out[5] = {0};
        ssize_t rc = source_get_chunk(&src, out, 5);
        printf("D18: source_get_chunk(short chunk source, 5) -> %zd, out = %d %d %d %d %d (expect 1 2 3 4 5)\n", rc, out[0], out[1], out[2], out[3], out[4]);
    }
    if (!strcmp(w, "d19")) {
        static const unsigned char d[] = {1,2,3,4,5,6,7,8};
        struct scr s = { d, 8, 0 }; Source src; chunk_source_init(&src, short_src, &s);
        unsigned char aux[4] = {9,9,9,9}, wire[16]; ByteBuffer ab; byte_buffer_use(&ab, aux, 4);
        ByteBuffer wb; byte_buffer_space(&wb, wire, sizeof wire); Sink sink; sink_to_buffer(&sink, &wb);
        ssize_t rc = sts_some_aux(&src, &sink, &ab);
        printf("D19: sts_some_aux(short source) -> %zd, sink has %zu octets: %d %d %d %d (source delivered 2)\n", rc, wb.used, wire[0], wire[1], wire[2], wire[3]);
    }
    if (!strcmp(w, "d21")) {
        char *s = malloc(2); s[0] = '#'; s[1] = 'x';
        printf("D21: sx_parse_stringn(\"#x\", 2) exact block\n"); fflush(stdout);
        struct sx_parse_result r = sx_parse_stringn(s, 2);
        printf("D21: status %d\n", r.status);
    }
    if (!strcmp(w, "d22")) {
        struct sx_parse_result r = sx_parse_string("#xAB");
        printf("D22: #xAB -> status %d value %llu (expect 171)\n", r.status, r.node ? (unsigned long long)r.node->data.u64 : 0ull);
    }
    if (!strcmp(w, "d23")) {
        printf("D23: sx_parse_string(\"(a \")\n"); fflush(stdout);
        struct sx_parse_result r = sx_parse_string("(a ");
        printf("D23: status %d\n", r.status);
    }
    if (!strcmp(w, "d24")) {
        struct sx_parse_result r = sx_parse_string("(a () b)");
        int len = 0; struct sx_node *p = r.node; while (p && sx_is_pair(p)) { len++; p = sx_cdr_unsafe(p); }
        printf("D24: (a () b) -> status %d, list length %d (expect 3), position %zu (expect 8)\n", r.status, len, r.position);
    }
    return 0;
}
