#include <stdio.h>
#include <string.h>
#include <stdlib.h>
#include <signal.h>
#include <unistd.h>
#include <ufw/register-table.h>
#include <ufw/persistent-storage.h>
#include <ufw/length-prefix.h>
#include <ufw/endpoints.h>
#include <ufw/byte-buffer.h>
#include <ufw/variable-length-integer.h>

static unsigned char medium[64];
static size_t mrd(void *d, uint32_t a, size_t n){ if (a+n>64) return 0; memcpy(d, medium+a, n); return n; }
static size_t mwr(uint32_t a, const void *s, size_t n){ if (a+n>64) return 0; memcpy(medium+a, s, n); return n; }
static void onalarm(int s){ (void)s; printf("D13: HANG confirmed (alarm fired in persistent_validate with zero-size aux buffer)\n"); _exit(0); }

int main(int argc, char **argv)
{
    if (argc > 1 && !strcmp(argv[1], "d25")) {
        RegisterTable t = {
            .area = (RegisterArea[]) { MEMORY_AREA(0x10, 4), MEMORY_AREA_RO(0x14, 4), REGISTER_AREA_END },
            .entry = (RegisterEntry[]) { REG_U16(0, 0x10, 1), REG_U16(1, 0x14, 2), REGISTER_ENTRY_END } };
        RegisterInit i = register_init(&t);
        RegisterAtom buf[4] = {0};
        RegisterAccess a = register_block_write(&t, 0x12, 4, buf);
        printf("D25: init=%d code=%d (READONLY=%d) address=0x%x (first RO address is 0x14)\n", i.code, a.code, REG_ACCESS_READONLY, a.address);
    }
    if (argc > 1 && !strcmp(argv[1], "d13")) {
        PersistentStorage s; unsigned char aux[4]; unsigned char data[8] = {1,2,3,4,5,6,7,8};
        persistent_init(&s, 8, mrd, mwr);
        PersistentAccess r = persistent_store(&s, data);
        printf("store=%d validate(no aux)=%d\n", r, persistent_validate(&s));
        persistent_buffer(&s, aux, 0);
        signal(SIGALRM, onalarm); alarm(2);
        r = persistent_validate(&s);
        printf("D13: returned %d\n", r);
    }
    if (argc > 1 && !strcmp(argv[1], "d12")) {
        PersistentStorage s; unsigned char data[8] = {1,2,3,4,5,6,7,8};
        persistent_init(&s, 8, mrd, mwr);
        PersistentAccess r = persistent_fetch_part(data, &s, (size_t)-1, 2);
        printf("D12: fetch_part(offset=SIZE_MAX,n=2) -> %d (OUT_OF_RANGE=%d)\n", r, PERSISTENT_ACCESS_ADDRESS_OUT_OF_RANGE);
    }
    if (argc > 1 && !strcmp(argv[1], "d15")) {
        unsigned char a[3]={1,2,3}, c[2]={4,5}, wire[32]; 
        ByteBuffer chunks[3] = { BYTE_BUFFER(a,3), BYTE_BUFFER_EMPTY(a,3), BYTE_BUFFER(c,2) };
        ByteChunks bc = BYTE_CHUNKS(chunks);
        ByteBuffer wb; byte_buffer_space(&wb, wire, sizeof wire); Sink sink; sink_to_buffer(&sink, &wb);
        ssize_t rc = lenp_chunks_to_sink(&sink, &bc);
        printf("D15: chunks_to_sink with empty middle chunk -> %zd (expect 6), wire used %zu\n", rc, wb.used);
    }
    if (argc > 1 && !strcmp(argv[1], "d20")) {
        unsigned char m[8]; ByteBuffer b; byte_buffer_space(&b, m, 8);
        byte_buffer_add(&b, "abc", 3); unsigned char x; byte_buffer_consume(&b, &x, 1);
        byte_buffer_rewind(&b);
        printf("D20: after add3,consume1,rewind: offset=%zu used=%zu data=%.2s (expect 0,2,bc)\n", b.offset, b.used, m);
    }
    if (argc > 1 && !strcmp(argv[1], "d14")) {
        unsigned char m[8]={10,11,12,13,14,15,16,17}, wire[32]; ByteBuffer b; byte_buffer_set(&b, m, 8, 6, 2);
        ByteBuffer wb; byte_buffer_space(&wb, wire, sizeof wire); Sink sink; sink_to_buffer(&sink, &wb);
        ssize_t rc = lenp_buffer_to_sink(&sink, &b);
        printf("D14: buffer(offset2,used6,size8) to_sink -> %zd, wire: ", rc); for (size_t i=0;i<wb.used;i++) printf("%02x ", wire[i]); printf("(expect 04 0c 0d 0e 0f)\n");
    }
    if (argc > 1 && !strcmp(argv[1], "d1")) {
        RegisterTable t = {
            .area = (RegisterArea[]) { MEMORY_AREA(0x10, 4), REGISTER_AREA_END },
            .entry = (RegisterEntry[]) { REG_U16(0, 0x10, 1), REGISTER_ENTRY_END } };
        register_init(&t);
        RegisterValue v = { .type = REG_TYPE_UINT16, .value.u16 = 1 };
        RegisterAccess a = register_set(&t, 1, v);
        printf("D1: register_set(idx==entries) -> code %d (NOENTRY=%d)\n", a.code, REG_ACCESS_NOENTRY);
        fflush(stdout);
        a = register_set_unsafe(&t, 1, v);
        printf("D1: unsafe -> code %d\n", a.code);
    }
    return 0;
}
