/* replay: sts_n over a sink with buffer extension; the source answers a hard error (or -EINTR) once */
#include <stdio.h>
#include <string.h>
#include <errno.h>
#include <ufw/endpoints.h>
#include <ufw/byte-buffer.h>

static unsigned char room[16];
static ByteBuffer sinkbuf;
static int script[8]; static int pos; static const unsigned char *stream = (const unsigned char*)"ABCDEFGH"; static size_t spos;

static ssize_t src_chunk(void *drv, void *buf, size_t n) {
    (void)drv;
    int s = script[pos]; if (script[pos+1] != 99) pos++;
    if (s < 0) return s;
    size_t k = (size_t)s < n ? (size_t)s : n;
    if (spos + k > 8) k = 8 - spos;
    if (k == 0) return -ENODATA;
    memcpy(buf, stream + spos, k); spos += k; return (ssize_t)k;
}
static ssize_t snk_chunk(void *drv, const void *buf, size_t n) { (void)drv; (void)buf; return (ssize_t)n; }
static ByteBuffer snk_getbuffer(Sink *s) { (void)s; return sinkbuf; }

int main(void) {
    int fails = 0;
    const int errs[] = { -EIO, -EINTR, -EAGAIN };
    for (unsigned i = 0; i < 3; ++i) {
        Source source; Sink sink;
        chunk_source_init(&source, src_chunk, NULL);
        chunk_sink_init(&sink, snk_chunk, NULL);
        sink.ext.getbuffer = snk_getbuffer;
        byte_buffer_space(&sinkbuf, room, sizeof room); sinkbuf.used = sizeof room;
        script[0] = errs[i]; script[1] = 3; script[2] = 99; pos = 0; spos = 0;
        ssize_t rc = sts_n(&source, &sink, 3);
        printf("source answers %d once: sts_n(3) = %zd (%s)\n", errs[i], rc, rc == errs[i] || rc == 3 ? "ok" : "WRONG");
        if (errs[i] == -EIO && rc != -EIO) fails++;
        if (errs[i] != -EIO && rc != 3 && rc != errs[i]) fails++;
    }
    printf(fails ? "FAIL\n" : "PASS\n");
    return fails != 0;
}
