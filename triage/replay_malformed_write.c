#include <stdio.h>
#include <stdlib.h>
#include <string.h>
#include <ufw/register-table.h>
int main(int argc, char **argv)
{
    RegisterTable t = {
        .area = (RegisterArea[]) { MEMORY_AREA(0x10, 8), REGISTER_AREA_END },
        .entry = (RegisterEntry[]) { REG_U64MAX(0, 0x10, 0x0000ffffffffffffull, 1), REGISTER_ENTRY_END } };
    register_init(&t);
    if (argc > 1 && !strcmp(argv[1], "tail")) {
        RegisterAtom *buf = malloc(1 * sizeof *buf); buf[0] = 0;
        printf("D2a: block write (A+3, n=1): last word of u64\n"); fflush(stdout);
        RegisterAccess a = register_block_write(&t, 0x13, 1, buf);
        printf("D2a: code %d\n", a.code);
    } else {
        /* max constraint 0x0000ffffffffffff: writing 0xffff into word 2 (bits 32..47) is fine, word 3 must stay 0.
           interior write (A+2,n=1) of 0xffff is legal; (A+3... use interior of word index 2 with rs=2 -> rlen 0 -> not validated at all.
           Make it illegal instead: constraint max 0x00000000ffffffff would forbid word 2 != 0 */
        t.entry[0].check.arg.max.u64 = 0x00000000ffffffffull;
        RegisterAtom buf[1] = { 0xffff };
        RegisterAccess a = register_block_write(&t, 0x12, 1, buf);
        RegisterValue v; register_get(&t, 0, &v);
        printf("D2b: interior write (A+2,n=1)=0xffff with max 0xffffffff -> code %d (RANGE=%d), value now 0x%llx\n", a.code, REG_ACCESS_RANGE, (unsigned long long)v.value.u64);
    }
    return 0;
}
