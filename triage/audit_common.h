/* Shared scaffolding of the C07 audit programs: an in-memory serial/TCP wire,
 * an independent frame builder (own CRC-16/ARC) and a recording memory. */
#ifndef AUDIT_COMMON_H
#define AUDIT_COMMON_H
#include <errno.h>
#include <stdint.h>
#include <stdio.h>
#include <stdlib.h>
#include <string.h>

#include <ufw/allocator.h>
#include <ufw/byte-buffer.h>
#include <ufw/endpoints.h>
#include <ufw/register-protocol.h>

static uint16_t crc_ref(uint16_t crc, const uint8_t *p, size_t n)
{
    for (size_t i = 0; i < n; i++) {
        crc ^= p[i];
        for (int k = 0; k < 8; k++)
            crc = (crc & 1) ? (crc >> 1) ^ 0xA001 : crc >> 1;
    }
    return crc;
}

/* Build a frame exactly as doc/regp.txt section 2 lays it out. opt: bit0
 * WORD-SIZE-16, bit1 WITH-HEADER-CRC, bit2 WITH-PAYLOAD-CRC. */
static size_t build(uint8_t *f, int type, int opt, int meta, uint16_t seq,
                    uint32_t addr, uint32_t bs, const uint8_t *pl, size_t pln)
{
    unsigned w0 = (meta << 12) | (opt << 8) | (type << 4);
    f[0] = w0 >> 8; f[1] = w0; f[2] = seq >> 8; f[3] = seq;
    f[4] = addr >> 24; f[5] = addr >> 16; f[6] = addr >> 8; f[7] = addr;
    f[8] = bs >> 24; f[9] = bs >> 16; f[10] = bs >> 8; f[11] = bs;
    size_t hs = 12; const int hd = opt & 2, plc = opt & 4;
    const size_t hdpos = 12; if (hd) hs += 2;
    const size_t plpos = hs; if (plc) hs += 2;
    const uint16_t pc = crc_ref(0, pl, pln);
    if (plc) { f[plpos] = pc >> 8; f[plpos + 1] = pc; }
    if (hd) {
        uint16_t c = crc_ref(0, f, 12);
        if (plc) c = crc_ref(c, f + plpos, 2);
        f[hdpos] = c >> 8; f[hdpos + 1] = c;
    }
    if (pln) memcpy(f + hs, pl, pln);
    return hs + pln;
}

static size_t slip_enc(const uint8_t *f, size_t n, uint8_t *o)
{
    size_t k = 0;
    for (size_t i = 0; i < n; i++) {
        if (f[i] == 0xc0) { o[k++] = 0xdb; o[k++] = 0xdc; }
        else if (f[i] == 0xdb) { o[k++] = 0xdb; o[k++] = 0xdd; }
        else o[k++] = f[i];
    }
    o[k++] = 0xc0;
    return k;
}

static size_t slip_dec(const uint8_t *w, size_t n, uint8_t *o, size_t *consumed)
{
    size_t k = 0, i = 0;
    for (; i < n; i++) {
        if (w[i] == 0xc0) { i++; break; }
        if (w[i] == 0xdb) { i++; o[k++] = (w[i] == 0xdc) ? 0xc0 : 0xdb; }
        else o[k++] = w[i];
    }
    *consumed = i;
    return k;
}

static void hex(const char *tag, const uint8_t *f, size_t n)
{
    printf("%s (%zu):", tag, n);
    for (size_t i = 0; i < n; i++) printf(" %02x", f[i]);
    printf("\n");
}

/* recording 8-bit memory */
static uint8_t mem8[256];
static int exec_count;
static RPBlockAccess mread8(uint32_t a, size_t n, uint8_t *b)
{
    RPBlockAccess rv = RPB_BLOCK_ACCESS_INIT;
    exec_count++;
    printf("    [memory] READ  address=0x%x size=%zu EXECUTED\n", (unsigned)a, n);
    for (size_t i = 0; i < n; i++) b[i] = mem8[(a + i) & 0xff];
    return rv;
}
static RPBlockAccess mwrite8(uint32_t a, size_t n, const uint8_t *b)
{
    RPBlockAccess rv = RPB_BLOCK_ACCESS_INIT;
    exec_count++;
    printf("    [memory] WRITE address=0x%x size=%zu EXECUTED:", (unsigned)a, n);
    for (size_t i = 0; i < n; i++) { mem8[(a + i) & 0xff] = b[i]; printf(" %02x", b[i]); }
    printf("\n");
    return rv;
}

static int alloc_fail;
static int my_alloc(void *d, void **m, size_t n)
{ (void)d; if (alloc_fail) return -ENOMEM; *m = malloc(n); return *m ? 0 : -ENOMEM; }
static void my_free(void *d, void *m) { (void)d; free(m); }
static BlockAllocator audit_alloc = MAKE_GENERIC_BLOCKALLOC(NULL, my_alloc, my_free, 256);

static uint8_t wire_in[4096], wire_out[4096];
static ByteBuffer bin, bout;
static RegP rp;

/* Put raw wire octets in front of a serial receiver with the given room for
 * the raw frame in its receive block. */
static void serial_setup(const uint8_t *wire, size_t wn, size_t room)
{
    static Source src; static Sink snk;
    memcpy(wire_in, wire, wn);
    byte_buffer_use(&bin, wire_in, wn);
    byte_buffer_space(&bout, wire_out, sizeof wire_out);
    source_from_buffer(&src, &bin);
    sink_to_buffer(&snk, &bout);
    regp_init(&rp);
    audit_alloc.blocksize = sizeof(RPFrame) + room;
    regp_use_allocator(&rp, &audit_alloc);
    regp_use_memory8(&rp, mread8, mwrite8);
    regp_use_channel(&rp, RP_EP_SERIAL, src, snk);
}

struct answer { size_t n; int type, code; uint16_t seq; uint8_t raw[256]; size_t rawn; };

/* One receive+process step; decodes what the receiver sent since the last
 * step. */
static size_t out_seen;
static struct answer step(int *recv_rc, int *errid)
{
    struct answer a; memset(&a, 0, sizeof a);
    RPMaybeFrame mf;
    const int rc = regp_recv(&rp, &mf);
    if (recv_rc) *recv_rc = rc;
    if (errid) *errid = mf.error.id;
    printf("    regp_recv() = %d, error.id = %d (%s)\n", rc, mf.error.id,
           mf.error.id ? strerror(mf.error.id) : "none");
    if (rc >= 0) {
        const int prc = regp_process(&rp, &mf);
        printf("    regp_process() = %d\n", prc);
        regp_free(&rp, mf.frame);
    }
    while (out_seen < bout.used) {
        size_t c; uint8_t fr[256];
        const size_t fl = slip_dec(wire_out + out_seen, bout.used - out_seen, fr, &c);
        out_seen += c;
        if (a.n == 0 && fl >= 12) {
            const unsigned w0 = (fr[0] << 8) | fr[1];
            a.type = (w0 >> 4) & 15; a.code = w0 >> 12; a.seq = (fr[2] << 8) | fr[3];
            memcpy(a.raw, fr, fl); a.rawn = fl;
        }
        a.n++;
    }
    if (a.n == 0) printf("    receiver sent: nothing\n");
    else {
        static const char *tn[16] = { "READ-REQUEST", "READ-RESPONSE", "WRITE-REQUEST", "WRITE-RESPONSE",
            "?","?","?","?","?","?","?","?","?","?","?", "META" };
        printf("    receiver sent: %s code/meta=%d seq=0x%04x  ", tn[a.type], a.code, a.seq);
        hex("frame", a.raw, a.rawn);
    }
    return a;
}
#endif
