/*
 * C06 finding 1: after a source error in the middle of a serial frame, the
 * rest of that frame is received as a frame of its own - and executed.
 *
 * Clause: "a frame that failed reception never causes a memory access".
 *
 * History (serial transport, 8-bit memory, library's own instrumentable
 * source as the channel driver):
 *
 *   The peer sends ONE frame W1: a valid write request (address 0x00000100,
 *   seq 0x0001) whose 22 payload octets are two filler octets followed by
 *   the octets of another write request W2 (address 0xdead0000, seq 0x6666,
 *   payload de ad be ef). That is ordinary payload data; W1 is a correct
 *   frame and, received undisturbed, writes 22 octets to 0x100 (control run).
 *
 *   In the second run the channel driver reports -EIO once (a UART overrun
 *   or parity error, say) when the receiver is 18 octets into W1, i.e.
 *   behind the two filler octets. regp_recv() returns -EIO: W1 has failed
 *   reception. The application does what the loop in regp_recv()'s comment
 *   does and calls regp_recv() again.
 *
 * Demanded: no memory access at all (the only frame on the wire failed
 *           reception), at most C07's reply.
 * Observed: the second regp_recv() delivers the tail of W1 as a valid write
 *           request; regp_process() writes de ad be ef to 0xdead0000 and
 *           acknowledges seq 0x6666 - a request nobody sent.
 *
 * The second part shows the same thing on the TCP transport (tail of the
 * frame begins with a length prefix); it has the same cause and is listed in
 * the README as a remark, not as a finding of its own.
 */
#include <stdint.h>
#include <stdio.h>
#include <string.h>
#include <errno.h>

#include <ufw/endpoints.h>
#include <ufw/register-protocol.h>

static uint16_t
crc16arc(uint16_t crc, const unsigned char *p, size_t n)
{
    for (size_t i = 0; i < n; ++i) {
        crc ^= p[i];
        for (int k = 0; k < 8; ++k)
            crc = (crc & 1u) ? (uint16_t)((crc >> 1) ^ 0xa001u) : (uint16_t)(crc >> 1);
    }
    return crc;
}
static void be16(unsigned char *p, uint16_t v) { p[0] = v >> 8; p[1] = v & 0xff; }
static void be32(unsigned char *p, uint32_t v)
{ p[0] = v >> 24; p[1] = (v >> 16) & 0xff; p[2] = (v >> 8) & 0xff; p[3] = v & 0xff; }

/* 8-bit write request, per doc/regp.txt; serial: both checksums */
static size_t
write_request(unsigned char *out, int serial, uint16_t seq, uint32_t addr,
              const unsigned char *pl, uint32_t n)
{
    size_t h = 12;
    out[0] = serial ? 0x06 : 0x00;  /* meta 0 | WITH-HEADER-CRC, WITH-PAYLOAD-CRC */
    out[1] = 0x20;                  /* WRITE-REQUEST, version 0 */
    be16(out + 2, seq); be32(out + 4, addr); be32(out + 8, n);
    if (serial) {
        unsigned char pc[2];
        be16(pc, crc16arc(0, pl, n));
        be16(out + 12, crc16arc(crc16arc(0, out, 12), pc, 2));
        memcpy(out + 14, pc, 2);
        h = 16;
    }
    memcpy(out + h, pl, n);
    return h + n;
}

static unsigned accesses;
static RPBlockAccess
mread(uint32_t a, size_t n, uint8_t *b)
{
    accesses++;
    printf("    backend: READ  address 0x%08x, %zu octets\n", a, n);
    memset(b, 0, n);
    return (RPBlockAccess){ RP_RESP_ACK, 0 };
}
static RPBlockAccess
mwrite(uint32_t a, size_t n, const uint8_t *b)
{
    accesses++;
    printf("    backend: WRITE address 0x%08x, %zu octets:", a, n);
    for (size_t i = 0; i < n; ++i) printf(" %02x", b[i]);
    printf("\n");
    return (RPBlockAccess){ RP_RESP_ACK, 0 };
}

static unsigned char wire_in[256], wire_out[256];

/* returns number of backend accesses */
static unsigned
run(int serial, const unsigned char *stream, size_t n, long error_at)
{
    InstrumentableBuffer in, out;
    Source so; Sink si;
    RegP p;

    memset(&in, 0, sizeof in); memset(&out, 0, sizeof out);
    memcpy(wire_in, stream, n);
    byte_buffer_set(&in.buffer, wire_in, sizeof wire_in, n, 0);
    byte_buffer_space(&out.buffer, wire_out, sizeof wire_out);
    instrumentable_source(&so, &in);
    instrumentable_sink(&si, &out);
    if (error_at >= 0) instrumentable_error_at(&in, (size_t)error_at, -EIO);

    regp_init(&p);
    regp_use_memory8(&p, mread, mwrite);
    regp_use_channel(&p, serial ? RP_EP_SERIAL : RP_EP_TCP, so, si);

    accesses = 0;
    for (int call = 1; call <= 4; ++call) {
        RPMaybeFrame mf;
        int rc = regp_recv(&p, &mf);
        printf("    regp_recv #%d: rc %d (%s), error.id %d, frame %s\n", call, rc,
               rc < 0 ? strerror(-rc) : "ok", mf.error.id, mf.frame ? "yes" : "none");
        if (rc == -ENODATA) break;
        if (rc == -EIO) {
            /* the line error has been reported; the driver carries on */
            instrumentable_no_error(&in);
            continue;
        }
        if (rc < 0) continue;
        rc = regp_process(&p, &mf);
        printf("    regp_process: rc %d\n", rc);
        regp_free(&p, mf.frame);
    }
    printf("    outgoing wire (%zu):", out.buffer.used);
    for (size_t i = 0; i < out.buffer.used; ++i) printf(" %02x", wire_out[i]);
    printf("\n");
    return accesses;
}

int
main(void)
{
    int bad = 0;

    for (int serial = 1; serial >= 0; --serial) {
        unsigned char w2[64], w1pl[64], w1[128], stream[256];
        const unsigned char evil[4] = { 0xde, 0xad, 0xbe, 0xef };
        size_t w2n = write_request(w2, serial, 0x6666, 0xdead0000u, evil, 4);
        size_t pln = 0, sn = 0, tail_at;

        w1pl[pln++] = 0x11; w1pl[pln++] = 0x22;
        if (!serial) w1pl[pln++] = (unsigned char)w2n;    /* a length prefix is data, too */
        memcpy(w1pl + pln, w2, w2n); pln += w2n;
        size_t w1n = write_request(w1, serial, 0x0001, 0x00000100u, w1pl, (uint32_t)pln);

        if (serial) {
            for (size_t i = 0; i < w1n; ++i) {
                if (w1[i] == 0xc0) { stream[sn++] = 0xdb; stream[sn++] = 0xdc; }
                else if (w1[i] == 0xdb) { stream[sn++] = 0xdb; stream[sn++] = 0xdd; }
                else stream[sn++] = w1[i];
            }
            stream[sn++] = 0xc0;
            if (sn != w1n + 1) { printf("unexpected escapes, adjust demo\n"); return 2; }
            tail_at = 16 + 2;
        } else {
            stream[sn++] = (unsigned char)w1n;
            memcpy(stream + sn, w1, w1n); sn += w1n;
            tail_at = 1 + 12 + 2;
        }

        printf("%s transport: one frame on the wire, W1 = write of %zu octets to 0x00000100\n",
               serial ? "SERIAL" : "TCP", pln);
        printf("  control: no driver error\n");
        unsigned c = run(serial, stream, sn, -1);
        printf("  -> %u backend access(es); property demands 1 (W1)\n", c);
        if (c != 1) { printf("  control run unexpected\n"); return 2; }

        printf("  fault: driver answers -EIO once, %zu octets into the frame\n", tail_at);
        unsigned f = run(serial, stream, sn, (long)tail_at);
        printf("  -> %u backend access(es); property demands 0 (W1 failed reception, nothing else was sent)\n", f);
        if (f != 0) {
            printf("  VIOLATION%s: the tail of the failed frame was executed as a request\n",
                   serial ? "" : " (remark, same cause)");
            if (serial) bad = 1;
        }
        printf("\n");
    }
    return bad;
}
