/* C03 finding 1: register_foreach_in() visits nothing when addr + off exceeds
 * 2^32, although registers at/after addr overlap the requested range.
 *
 * Cause: core.c:1866 computes the inclusive range end as (addr + off - 1u) in
 * uint32_t arithmetic; the sum wraps and reg_iterate()'s "address <= end" test
 * (core.c:1781) rejects every register. */
#include <stdio.h>
#include <inttypes.h>
#include <ufw/register-table.h>

static int calls;
static RegisterHandle seen[8];

static int
cb(RegisterTable *t, RegisterHandle h, void *arg)
{
    (void)t; (void)arg;
    if (calls < 8) seen[calls] = h;
    calls++;
    return 0;
}

static int
cb_fail(RegisterTable *t, RegisterHandle h, void *arg)
{
    (void)t; (void)arg; (void)h;
    calls++;
    return -1;
}

static int
run(RegisterTable *t, RegisterAddress addr, RegisterOffset off, int want,
    const char *what)
{
    calls = 0;
    RegisterAccess a = register_foreach_in(t, addr, off, cb, NULL);
    printf("register_foreach_in(addr=0x%08"PRIx32", off=0x%08"PRIx32") [%s]\n"
           "   property demands %d callback(s); got %d (code %d)%s\n",
           addr, off, what, want, calls, (int)a.code,
           calls == want ? "" : "   <-- VIOLATION");
    return calls != want;
}

int
main(void)
{
    RegisterTable t = {
        .area = (RegisterArea[]) {
            MEMORY_AREA(0x0000ul, 0x40ul),
            REGISTER_AREA_END
        },
        .entry = (RegisterEntry[]) {
            REG_U16(0, 0x0000ul, 0u),
            REG_U16(1, 0x0001ul, 1u),
            REG_U32(2, 0x0002ul, 2u),
            REG_U16(3, 0x0010ul, 3u),
            REGISTER_ENTRY_END
        }
    };
    int bad = 0;
    RegisterInit ri = register_init(&t);
    if (ri.code != REG_INIT_SUCCESS) {
        printf("init failed\n");
        return 2;
    }

    /* Sanity: these do not wrap and behave. */
    bad += run(&t, 0u, REGISTER_OFFSET_MAX, 4, "whole table, end = 0xfffffffe");
    bad += run(&t, 1u, REGISTER_OFFSET_MAX, 3, "end = 0xffffffff, no wrap yet");

    /* "All registers from address 2 on": range [2, 2 + 0xffffffff) contains
     * the registers at 0x2 and 0x10, whether one clips the range at the top of
     * the address space or lets it wrap. */
    bad += run(&t, 2u, REGISTER_OFFSET_MAX, 2, "addr + off - 1 wraps to 0");
    bad += run(&t, 3u, REGISTER_OFFSET_MAX, 2, "start inside the u32 at 2");
    bad += run(&t, 0x10u, 0xfffffff1u, 1, "addr + off = 2^32 + 1");
    bad += run(&t, 0x10u, 0xfffffff0u, 1, "addr + off = 2^32 exactly (ok)");

    /* The failure-reporting clause is lost as well: the callback that would
     * fail is never called, so SUCCESS is returned. */
    calls = 0;
    RegisterAccess a = register_foreach_in(&t, 2u, REGISTER_OFFSET_MAX,
                                           cb_fail, NULL);
    printf("failing callback over (2, 0xffffffff): property demands FAILURE at"
           " address 0x2 after 1 call; got code %d address 0x%"PRIx32
           " after %d call(s)%s\n", (int)a.code, a.address, calls,
           (a.code == REG_ACCESS_FAILURE && a.address == 2u && calls == 1)
           ? "" : "   <-- VIOLATION");
    bad += !(a.code == REG_ACCESS_FAILURE && a.address == 2u && calls == 1);

    printf("%s\n", bad ? "finding-1: DEFECT REPRODUCED" : "finding-1: not reproduced");
    return bad ? 1 : 0;
}
