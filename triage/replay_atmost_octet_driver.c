/* Replay for C17.e (D46): "The at-most variants never move more than asked and return the count actually moved".
 * On an octet-style driver the at-most variants ran the exact adaptor: a driver error after k > 0 octets was returned
 * bare, the k octets already taken from the source (or given to the sink) were not reported.  Consequences: the octets
 * vanish for the caller, and sts_drain_aux loses the tail of an octet source.
 *   cc -I/repo/include -I/repo/_build/include replay_atmost_octet_driver.c /repo/_build/libufw.a -o r && ./r */
#include <stdio.h>
#include <string.h>
#include <ufw/compat/errno.h>
#include <ufw/endpoints.h>

int main(void)
{
    int bad = 0;
    unsigned char mem[7] = { 1, 2, 3, 4, 5, 6, 7 };
    InstrumentableBuffer ib;
    Source src;
    byte_buffer_use(&ib.buffer, mem, sizeof mem);
    instrumentable_set_trace(&ib, false);
    instrumentable_source(&src, &ib);                     /* octet-style driver, -ENODATA at its end */

    unsigned char got[8] = { 0 };
    ssize_t rc = source_get_chunk_atmost(&src, got, sizeof got);
    printf("source_get_chunk_atmost(8) on 7 octets: rc=%zd (demanded 7), source consumed %zu\n", rc, ib.buffer.offset);
    bad += (rc != 7);

    /* drain through a 4-octet window */
    byte_buffer_use(&ib.buffer, mem, sizeof mem);
    instrumentable_source(&src, &ib);
    unsigned char out[16];
    ByteBuffer ob;
    Sink snk;
    byte_buffer_space(&ob, out, sizeof out);
    sink_to_buffer(&snk, &ob);
    unsigned char win[4];
    ByteBuffer aux;
    byte_buffer_use(&aux, win, sizeof win);                /* the window the plumbing may use: [offset, used) */
    rc = sts_drain_aux(&src, &snk, &aux);
    printf("sts_drain_aux over a 4-octet window: rc=%zd, sink holds %zu of 7 octets\n", rc, ob.used);
    bad += (ob.used != 7 || memcmp(out, mem, 7) != 0);

    /* mirror: octet sink with room for 3 */
    unsigned char small[3];
    InstrumentableBuffer sb;
    Sink osnk;
    byte_buffer_space(&sb.buffer, small, sizeof small);
    instrumentable_set_trace(&sb, false);
    instrumentable_sink(&osnk, &sb);
    rc = sink_put_chunk_atmost(&osnk, mem, 5);
    printf("sink_put_chunk_atmost(5) into an octet sink with room for 3: rc=%zd (demanded 3), written %zu\n", rc, sb.buffer.used);
    bad += (rc != 3);
    puts(bad ? "FAIL: octets moved before a driver error are not reported" : "PASS");
    return bad != 0;
}
