/* Replay for C20.f (D24 and the stray ")"): build against /repo/_build/libufw-sx.a
 *   cc -I/repo/include -I/repo/_build/include replay_sx_nested_empty.c /repo/_build/libufw-sx.a -o r && ./r */
#include <stdio.h>
#include <string.h>
#include <ufw/sx.h>

static int count(struct sx_node *n)
{
    int c = 0;
    while (n != NULL && n->type == SXT_PAIR) { c++; n = n->data.pair->cdr; }
    return c;
}

int main(void)
{
    int bad = 0;
    const char *a = "(a () b)";
    struct sx_parse_result r = sx_parse_string(a);
    printf("%-10s status=%d elements=%d position=%zu (expected 0, 3, %zu)\n", a, r.status, count(r.node), r.position, strlen(a));
    bad += !(r.status == SXS_SUCCESS && count(r.node) == 3 && r.position == strlen(a));
    sx_destroy(&r.node);
    const char *b = "(())";
    r = sx_parse_string(b);
    printf("%-10s status=%d elements=%d position=%zu (expected 0, 1, %zu)\n", b, r.status, count(r.node), r.position, strlen(b));
    bad += !(r.status == SXS_SUCCESS && count(r.node) == 1 && r.position == strlen(b));
    sx_destroy(&r.node);
    const char *c = ") a";
    r = sx_parse_string(c);
    printf("%-10s status=%d node=%p (expected an error status and no tree)\n", c, r.status, (void*)r.node);
    bad += !(r.status != SXS_SUCCESS && r.node == NULL);
    sx_destroy(&r.node);
    printf(bad ? "FAIL\n" : "PASS\n");
    return bad != 0;
}
