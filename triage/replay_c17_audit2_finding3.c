/* C17 finding 3: the counted and draining plumbing that goes through a buffer
 * (sts_n_aux, sts_drain_aux, and sts_n/sts_drain on the source-buffer path)
 * gives up with -EINTR/-EAGAIN when a chunk-style source is interrupted once.
 * The exact primitives and the per-octet plumbing retry, as the contract in
 * core.c says ("Drivers returning -EINTR will cause the system to ... retry").
 * The caller is not told how much was moved, so it cannot resume either. */
#include <stdio.h>
#include <string.h>
#include <errno.h>
#include <ufw/endpoints.h>

struct drv { size_t pos; int calls; int interrupt_at; int err; };
static const unsigned char stream[6] = { 1, 2, 3, 4, 5, 6 };

/* chunk source: delivers 2 octets per call; call number interrupt_at is interrupted */
static ssize_t src(void *p, void *buf, size_t n)
{
    struct drv *d = p;
    if (d->calls++ == d->interrupt_at) return d->err;
    if (d->pos == sizeof stream) return -ENODATA;
    size_t m = n < 2 ? n : 2;
    if (m > sizeof stream - d->pos) m = sizeof stream - d->pos;
    memcpy(buf, stream + d->pos, m); d->pos += m;
    return (ssize_t)m;
}

static unsigned char scratch[4];
static ByteBuffer getscratch(Source *s) { (void)s; ByteBuffer b = BYTE_BUFFER(scratch, sizeof scratch); return b; }

int main(void)
{
    int bad = 0;
    static const char *name[] = { "sts_n_cbc(6)", "sts_n_aux(6)", "sts_drain_aux", "sts_n(6) [source getbuffer]", "sts_drain [source getbuffer]" };
    for (int e = 0; e < 2; ++e)
    for (int which = 0; which < 5; ++which) {
        struct drv d = { 0, 0, 1, e ? -EAGAIN : -EINTR };
        unsigned char store[16], auxmem[4];
        ByteBuffer out = BYTE_BUFFER_EMPTY(store, sizeof store);
        ByteBuffer aux = BYTE_BUFFER(auxmem, sizeof auxmem);
        Source s; Sink k;
        chunk_source_init(&s, src, &d);
        sink_to_buffer(&k, &out);
        if (which >= 3) s.ext.getbuffer = getscratch;
        ssize_t rc;
        switch (which) {
        case 0: rc = sts_n_cbc(&s, &k, 6); break;
        case 1: rc = sts_n_aux(&s, &k, &aux, 6); break;
        case 2: rc = sts_drain_aux(&s, &k, &aux); break;
        case 3: rc = sts_n(&s, &k, 6); break;
        default: rc = sts_drain(&s, &k); break;
        }
        const int drain = which == 2 || which == 4;
        const int ok = out.used == 6 && memcmp(store, stream, 6) == 0 && rc == (drain ? -ENODATA : 6);
        printf("chunk source 1..6 in pieces of 2, second call answers %s: %-30s -> %zd, sink got %zu of 6  %s\n",
               e ? "-EAGAIN" : "-EINTR", name[which], rc, out.used, ok ? "ok" : "VIOLATION");
        if (!ok) bad = 1;
    }
    printf("property: exactly the requested count (or everything up to the source's end) is moved\n"
           "for any mix of partial transfers, zero-length returns and EINTR/EAGAIN interruptions.\n");
    return bad;
}
