/*
 * C04 finding 3: the area overlap rule is evaluated with a 32-bit sum that
 * wraps, so an area lying inside its predecessor is accepted.
 *
 * (The sibling check for registers, core.c:965, adds a size_t and is therefore
 * only exposed on targets with a 32-bit size_t; not reproducible on this
 * 64-bit host, hence not demonstrated.)
 *
 * Clause: "Initialisation succeeds exactly when ... areas are ascending and
 * non-overlapping, registers are ascending and non-overlapping ...; otherwise
 * it reports the first violated rule with the index of the offending area or
 * register".
 */
#include <inttypes.h>
#include <stdio.h>

#include <ufw/register-table.h>

static RegisterAtom devmem[0x200];

static RegisterAccess
dev_read(const RegisterArea *a, RegisterAtom *d, RegisterOffset o, RegisterOffset n)
{
    RegisterAccess rv = REG_ACCESS_RESULT_INIT;
    (void)a;
    for (RegisterOffset i = 0; i < n; ++i) {
        d[i] = devmem[(o + i) % 0x200u];
    }
    return rv;
}

static RegisterAccess
dev_write(RegisterArea *a, const RegisterAtom *s, RegisterOffset o, RegisterOffset n)
{
    RegisterAccess rv = REG_ACCESS_RESULT_INIT;
    (void)a;
    for (RegisterOffset i = 0; i < n; ++i) {
        devmem[(o + i) % 0x200u] = s[i];
    }
    return rv;
}

int
main(void)
{
    int bad = 0;

    /* (a) areas: area 0 is 0xffff0000 + 0x20000 words (a device window whose
     * size runs past the end of the address space); area 1 lies inside it. */
    {
        static RegisterAtom mem[0x100];
        RegisterArea areas[] = {
            CUSTOM_AREA(dev_read, dev_write, 0xffff0000u, 0x20000u),
            { .read = reg_mem_read, .write = reg_mem_write, .flags = REG_AF_RW,
              .base = 0xffff8000u, .size = 0x100u, .mem = mem },
            REGISTER_AREA_END
        };
        RegisterEntry entries[] = {
            REG_U16(0, 0xffff8000u, 7u),
            REGISTER_ENTRY_END
        };
        RegisterTable t = { .area = areas, .entry = entries };
        printf("(a) area 0: 0xffff0000 + 0x20000 words, area 1: 0xffff8000 +"
               " 0x100 words (inside area 0)\n");
        printf("    demanded: REG_INIT_AREA_ADDRESS_OVERLAP (%d) for area 1\n",
               REG_INIT_AREA_ADDRESS_OVERLAP);
        RegisterInit rv = register_init(&t);
        printf("    observed: code %d, pos %" PRIu32 "\n", rv.code, rv.pos.address);
        if (rv.code != REG_INIT_AREA_ADDRESS_OVERLAP || rv.pos.area != 1u) {
            printf("    VIOLATION: overlapping areas accepted\n");
            bad = 1;
        }
        if (rv.code == REG_INIT_SUCCESS) {
            printf("    area 0 records %" PRIu32 " registers, area 1 records %"
                   PRIu32 "; address 0xffff8000 belongs to both\n",
                   areas[0].entry.count, areas[1].entry.count);
        }
    }

    return bad;
}
