/* finding-1: on a serial (SLIP) channel a sink driver that answers -EINTR /
 * -EAGAIN once ("interrupted, ask again" - the documented retry signals of the
 * endpoint layer) makes regp_process() abandon the response in the middle of
 * the frame AFTER the memory access was performed. The same driver behaviour on
 * a TCP (length-prefixed) channel is retried and the response is complete.
 * Property C06: a successfully received request is executed exactly once AND
 * exactly one (well-formed) response is emitted.
 */
#include <stdint.h>
#include <stdio.h>
#include <string.h>
#include <errno.h>
#include <ufw/endpoints.h>
#include <ufw/register-protocol.h>

static uint8_t rx[256]; static size_t rxn, rxpos;
static uint8_t tx[256]; static size_t txn;
static size_t intr_at; static int intr_armed;
static int writes;

static int src(void *d, void *b) { (void)d; if (rxpos >= rxn) return -ENODATA; *(uint8_t*)b = rx[rxpos++]; return 1; }
static int snk(void *d, unsigned char o)
{ (void)d; if (intr_armed && txn == intr_at) { intr_armed = 0; return -EINTR; } tx[txn++] = o; return 1; }
static RPBlockAccess rd(uint32_t a, size_t n, uint8_t *b) { (void)n; (void)b; RPBlockAccess r = { RP_RESP_ACK, a }; return r; }
static RPBlockAccess wr(uint32_t a, size_t n, const uint8_t *b)
{ (void)n; (void)b; writes++; RPBlockAccess r = { RP_RESP_ACK, a }; return r; }

/* client instance used only to produce valid request images */
static uint8_t cw[256]; static size_t cwn;
static int csnk(void *d, unsigned char o) { (void)d; cw[cwn++] = o; return 1; }

static int run(RPEndpointType type, const char *name)
{
    RegP c; regp_init(&c); Source none = source_empty; Sink cs; octet_sink_init(&cs, csnk, NULL);
    regp_use_channel(&c, type, none, cs); cwn = 0;
    const uint8_t pl1[2] = { 0x11, 0x22 }, pl2[2] = { 0x33, 0x44 };
    regp_req_write8(&c, 0x1000, 2, pl1);
    regp_req_write8(&c, 0x2000, 2, pl2);
    memcpy(rx, cw, cwn); rxn = cwn; rxpos = 0; txn = 0; writes = 0;

    RegP p; regp_init(&p); regp_use_memory8(&p, rd, wr);
    Source so; Sink si; octet_source_init(&so, src, NULL); octet_sink_init(&si, snk, NULL);
    regp_use_channel(&p, type, so, si);
    intr_at = 5; intr_armed = 1;          /* one -EINTR while the first response is sent */
    int rcs[2];
    for (int i = 0; i < 2; i++) {
        RPMaybeFrame mf; int rc = regp_recv(&p, &mf);
        rcs[i] = rc ? rc : regp_process(&p, &mf);
        regp_free(&p, mf.frame);
    }
    printf("%s: 2 write requests, sink answers -EINTR once at octet 5 of the first response\n", name);
    printf("  backend writes performed: %d; regp_process results: %d %d\n", writes, rcs[0], rcs[1]);
    printf("  wire (%zu):", txn); for (size_t i = 0; i < txn; i++) printf(" %02x", tx[i]); printf("\n");
    /* count complete responses on the wire */
    int frames = 0;
    if (type == RP_EP_SERIAL) { for (size_t i = 0; i < txn; i++) if (tx[i] == 0xc0) frames++; }
    else { size_t i = 0; while (i < txn) { size_t l = tx[i]; if (i + 1 + l > txn) break; i += 1 + l; frames++; } }
    int good = (type == RP_EP_SERIAL) ? (frames == 2 && txn == 2 * 15) : (frames == 2 && txn == 2 * 13);
    printf("  property demands 2 complete write acknowledgements (one per executed request); found %d delimited frame(s), %s\n",
           frames, good ? "OK" : "VIOLATED");
    return good ? 0 : 1;
}

int main(void)
{
    int t = run(RP_EP_TCP, "TCP   ");
    int s = run(RP_EP_SERIAL, "SERIAL");
    printf("tcp %s, serial %s\n", t ? "FAIL" : "ok", s ? "FAIL" : "ok");
    return (t || s) ? 1 : 0;
}
