/* C17 finding 2 (lower severity, twin of the repaired c916f60): a source whose
 * buffer extension offers a window without room makes sts_atmost() answer
 * -ENODATA - the end of a stream that has not ended. sts_drain() ends on
 * exactly that value, so it reports "drained" with nothing moved; sts_n()
 * reports that the source ran dry.
 *
 * The same situation on the auxiliary-buffer side (BYTE_BUFFER_EMPTY window)
 * was repaired to -EINVAL because it "reported an end of the stream that does
 * not exist". */
#include <errno.h>
#include <stdio.h>
#include <string.h>

#include <ufw/endpoints.h>

static unsigned char staging[8];

static ByteBuffer
staging_buffer(Source *s)
{
    (void)s;
    /* The natural declaration of an empty staging area. */
    ByteBuffer b = BYTE_BUFFER_EMPTY(staging, sizeof(staging));
    return b;
}

int
main(void)
{
    unsigned char in[] = { 1, 2, 3, 4, 5 };
    unsigned char out[8];
    ByteBuffer sb = BYTE_BUFFER(in, sizeof(in));
    ByteBuffer ob = BYTE_BUFFER_EMPTY(out, sizeof(out));
    Source source;
    Sink sink;
    int bad = 0;

    source_from_buffer(&source, &sb);
    source.ext.getbuffer = staging_buffer;
    sink_to_buffer(&sink, &ob);

    printf("source holds 5 octets; its getbuffer extension offers a window "
           "with used == offset (BYTE_BUFFER_EMPTY)\n");

    ssize_t rc = sts_drain(&source, &sink);
    printf("sts_drain: rc=%zd (-ENODATA is %d), sink holds %zu, source still "
           "holds %zu\n", rc, -ENODATA, ob.used, byte_buffer_rest(&sb));
    printf("  property: drain moves everything up to the source's end; "
           "-ENODATA is how drain says it did\n");
    if (rc == -ENODATA && ob.used != sizeof(in)) {
        printf("  VIOLATION: the end of the stream is reported, %zu of 5 "
               "octets were moved\n", ob.used);
        bad = 1;
    }

    rc = sts_n(&source, &sink, 3u);
    printf("sts_n(3): rc=%zd, sink holds %zu, source still holds %zu\n",
           rc, ob.used, byte_buffer_rest(&sb));
    if (rc == -ENODATA && byte_buffer_rest(&sb) >= 3u) {
        printf("  VIOLATION: -ENODATA although the source has the 3 octets\n");
        bad = 1;
    }

    /* For comparison: the repaired twin. */
    unsigned char auxmem[8];
    ByteBuffer aux = BYTE_BUFFER_EMPTY(auxmem, sizeof(auxmem));
    source.ext.getbuffer = NULL;
    rc = sts_drain_aux(&source, &sink, &aux);
    printf("sts_drain_aux with an empty auxiliary window: rc=%zd (-EINVAL is "
           "%d) - refused, no false end\n", rc, -EINVAL);
    return bad;
}
