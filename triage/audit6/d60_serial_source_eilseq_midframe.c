/*
 * NOT part of the seeded change. Reproducer for the section "Observed in the
 * unchanged code" of README.md: a serial source that answers -EILSEQ in the
 * middle of a frame makes regp_recv() drop the head of the frame but leaves
 * the SLIP decoder in RFC1055_NORMAL, so the rest of the frame is decoded as a
 * frame by the next call. Here the rest is a complete write request (embedded
 * in the payload of the outer one), and it is executed.
 *
 * Build like demo.c (see build_demo.sh), link against _build/libufw.a.
 * Prints "writes=1 addr=0x99" on the unchanged library; the expected outcome
 * is writes=0 (with -EIO instead of -EILSEQ that is what happens).
 */

#include <stdint.h>
#include <stdio.h>
#include <string.h>

#include <ufw/byte-buffer.h>
#include <ufw/compat/errno.h>
#include <ufw/endpoints.h>
#include <ufw/register-protocol.h>

static unsigned int writes;
static uint32_t waddr;

static RPBlockAccess
mw(uint32_t a, size_t n, const uint16_t *b)
{
    (void)n; (void)b;
    writes++;
    waddr = a;
    RPBlockAccess r = { .status = RP_RESP_ACK, .address = a };
    return r;
}

static RPBlockAccess
mr(uint32_t a, size_t n, uint16_t *b)
{
    (void)n; (void)b;
    RPBlockAccess r = { .status = RP_RESP_ACK, .address = a };
    return r;
}

static uint16_t
crc(uint16_t c, const unsigned char *p, size_t n)
{
    for (size_t i = 0; i < n; i++) {
        c ^= p[i];
        for (int b = 0; b < 8; b++)
            c = (c & 1) ? (uint16_t)((c >> 1) ^ 0xa001) : (uint16_t)(c >> 1);
    }
    return c;
}

/* 16 bit write request with both checksums. */
static void
mk(unsigned char *f, uint16_t seq, uint32_t addr, uint32_t bs,
   const unsigned char *pl, size_t pn)
{
    f[0] = 0x07; f[1] = 0x20; f[2] = seq >> 8; f[3] = seq & 0xff;
    f[4] = addr >> 24; f[5] = addr >> 16; f[6] = addr >> 8; f[7] = addr;
    f[8] = bs >> 24; f[9] = bs >> 16; f[10] = bs >> 8; f[11] = bs;
    memcpy(f + 16, pl, pn);
    const uint16_t pc = crc(0, pl, pn);
    f[14] = pc >> 8; f[15] = pc & 0xff;
    uint16_t hc = crc(0, f, 12);
    hc = crc(hc, f + 14, 2);
    f[12] = hc >> 8; f[13] = hc & 0xff;
}

int
main(void)
{
    unsigned char inner[18], outer[36], pl[20];
    const unsigned char ipl[2] = { 0xbe, 0xef };
    mk(inner, 7, 0x99, 1, ipl, 2);
    pl[0] = 0x11; pl[1] = 0x22;
    memcpy(pl + 2, inner, 18);
    mk(outer, 1, 0x10, 10, pl, 20);
    for (int i = 0; i < 36; i++) {
        if (outer[i] == 0xc0 || outer[i] == 0xdb) {
            printf("octet %d needs escaping, adapt the example\n", i);
            return 2;
        }
    }

    static unsigned char wire[64], txm[256];
    memcpy(wire, outer, 36);
    wire[36] = 0xc0;

    InstrumentableBuffer ib, ob;
    memset(&ib, 0, sizeof ib);
    memset(&ob, 0, sizeof ob);
    byte_buffer_set(&ib.buffer, wire, sizeof wire, 37, 0);
    byte_buffer_space(&ob.buffer, txm, sizeof txm);
    Source s;
    Sink k;
    instrumentable_source(&s, &ib);
    instrumentable_sink(&k, &ob);

    RegP p;
    regp_init(&p);
    regp_use_memory16(&p, mr, mw);
    regp_use_channel(&p, RP_EP_SERIAL, s, k);

    /* The driver reports -EILSEQ once, after header and two payload octets. */
    instrumentable_error_at(&ib, 18, -EILSEQ);
    RPMaybeFrame mf;
    int rc = regp_recv(&p, &mf);
    printf("recv1 rc=%d id=%d frame=%p decoder state=%d\n",
           rc, mf.error.id, (void*)mf.frame, (int)p.ep.slip.state);
    regp_process(&p, &mf);
    regp_free(&p, mf.frame);

    instrumentable_no_error(&ib);
    rc = regp_recv(&p, &mf);
    printf("recv2 rc=%d id=%d frame=%p\n", rc, mf.error.id, (void*)mf.frame);
    regp_process(&p, &mf);
    regp_free(&p, mf.frame);

    printf("writes=%u addr=0x%x\n", writes, (unsigned)waddr);
    return (writes == 0u) ? 0 : 1;
}
