/*
 * D59 (follow-up of finding-1 / D57): the repair 6790447 marked the channel
 * only when the sink had obtained a block. Here the driver fails right behind
 * the length prefix: no block yet, no mark, and the next calls read header
 * and payload octets as length prefixes and frames.
 *
 * finding-1: TCP channel: after a source error in the middle of a frame the
 * rest of that frame is taken for new frames; a request that only exists as
 * payload data of the failed frame is executed on the memory backend.
 *
 * C06: "a frame that failed reception never causes a memory access".
 *
 * The serial twin was repaired in 62b01e6 ("the rest of a frame that was
 * dropped on a channel error is skipped"); the same history is run on a
 * serial channel for contrast.
 */

#include <errno.h>
#include <stdint.h>
#include <stdio.h>
#include <string.h>

#include <ufw/endpoints.h>
#include <ufw/register-protocol.h>

static unsigned char wire[256];
static size_t wlen, wpos, fail_at;
static int fail_armed;

static int
src_octet(void *d, void *o)
{
    (void)d;
    if (fail_armed && wpos == fail_at) {
        fail_armed = 0;
        return -EIO;            /* one hard error of the channel driver */
    }
    if (wpos >= wlen) {
        return -ENODATA;
    }
    *(unsigned char *)o = wire[wpos++];
    return 1;
}

static unsigned char out[256];
static size_t outlen;

static int
sink_octet(void *d, unsigned char c)
{
    (void)d;
    out[outlen++] = c;
    return 1;
}

static int accesses;

static RPBlockAccess
mread(uint32_t a, size_t n, uint8_t *b)
{
    (void)b;
    accesses++;
    printf("    BACKEND read  addr 0x%08x n %zu\n", (unsigned)a, n);
    return (RPBlockAccess){ RP_RESP_ACK, 0 };
}

static RPBlockAccess
mwrite(uint32_t a, size_t n, const uint8_t *b)
{
    accesses++;
    printf("    BACKEND write addr 0x%08x n %zu:", (unsigned)a, n);
    for (size_t i = 0; i < n; ++i) printf(" %02x", b[i]);
    printf("\n");
    return (RPBlockAccess){ RP_RESP_ACK, 0 };
}

static uint16_t
crc16(const unsigned char *p, size_t n)
{
    uint16_t c = 0;
    for (size_t i = 0; i < n; ++i) {
        c ^= p[i];
        for (int k = 0; k < 8; ++k) c = (c & 1) ? (uint16_t)((c >> 1) ^ 0xa001) : (uint16_t)(c >> 1);
    }
    return c;
}

static int
run(const RPEndpointType type)
{
    RegP p;
    Source so;
    Sink si;
    regp_init(&p);
    regp_use_memory8(&p, mread, mwrite);
    octet_source_init(&so, src_octet, NULL);
    octet_sink_init(&si, sink_octet, NULL);
    regp_use_channel(&p, type, so, si);
    accesses = 0; outlen = 0; wpos = 0; wlen = 0;

    /* What the outer frame carries as payload: 15 octets of data, followed by
     * 15 octets that happen to look like a framed write request (address
     * 0xbeef, two octets "de ad"). */
    unsigned char payload[48];
    size_t pn = 0;
    /* tcp: the reader that lost step takes header octet 0 (00) for an empty
     * frame, header octet 1 (20) for a 32 octet frame = 10 header octets and
     * 22 payload octets; payload octet 22 is the next "length prefix". */
    for (int i = 0; i < (type == RP_EP_TCP ? 22 : 15); ++i) payload[pn++] = (unsigned char)('a' + i);
    const size_t inner_at = pn;
    if (type == RP_EP_TCP) {
        const unsigned char inner[] = { 0x0e, /* length prefix 14 */
            0x00, 0x20, 0x00, 0x63, 0x00, 0x00, 0xbe, 0xef, 0x00, 0x00, 0x00, 0x02,
            0xde, 0xad };
        memcpy(payload + pn, inner, sizeof(inner)); pn += sizeof(inner);
    } else {
        unsigned char inner[18] = {
            0x06, 0x20, 0x00, 0x63, 0x00, 0x00, 0xbe, 0xef, 0x00, 0x00, 0x00, 0x02,
            0, 0, 0, 0, 0xde, 0xad };
        unsigned char tmp[14];
        const uint16_t pc = crc16(inner + 16, 2);
        inner[14] = (unsigned char)(pc >> 8); inner[15] = (unsigned char)pc;
        memcpy(tmp, inner, 12); tmp[12] = inner[14]; tmp[13] = inner[15];
        const uint16_t hc = crc16(tmp, 14);
        inner[12] = (unsigned char)(hc >> 8); inner[13] = (unsigned char)hc;
        memcpy(payload + pn, inner, sizeof(inner)); pn += sizeof(inner);
    }

    /* control: the embedded octets on their own are a frame this channel
     * executes (so the serial run below is a fair contrast) */
    {
        memcpy(wire, payload + inner_at, pn - inner_at);
        wlen = pn - inner_at;
        if (type == RP_EP_SERIAL) wire[wlen++] = 0xc0;
        wpos = 0; fail_armed = 0;
        RPMaybeFrame mf;
        printf("  control, embedded octets alone:\n");
        regp_recv(&p, &mf);
        regp_process(&p, &mf);
        regp_free(&p, mf.frame);
        printf("  control: %d access(es)\n", accesses);
        accesses = 0; outlen = 0; wpos = 0; wlen = 0;
    }

    /* The one and only frame on the channel: WRITE-REQUEST, 8 bit, address
     * 0x1000, block size = pn, built by the library's own requester. */
    {
        RegP q;
        regp_init(&q);
        regp_use_channel(&q, type, so, si);
        regp_req_write8(&q, 0x1000, pn, payload);
        memcpy(wire, out, outlen);
        wlen = outlen;
        outlen = 0;
        for (size_t i = 0; i < wlen; ++i) {
            if (wire[i] == 0xdb) { printf("unexpected escape\n"); return -1; }
        }
    }
    /* the channel driver fails once, right before the octet inner_at of the
     * payload (header sizes: tcp 1 + 12, serial 16; no octet needs escaping) */
    /* tcp: right behind the length prefix - nothing has reached the sink yet,
     * no block was allocated */
    fail_at = (type == RP_EP_TCP ? 1u : 16u + inner_at);
    fail_armed = 1;

    printf("  channel carries ONE frame (%zu octets): write8 addr 0x1000 n %zu; "
           "driver fails once with -EIO at octet %zu\n", wlen, pn, fail_at);

    for (int i = 0; i < 6; ++i) {
        RPMaybeFrame mf;
        const int rc = regp_recv(&p, &mf);
        printf("  regp_recv #%d: rc %d, error.id %d, frame %s\n", i + 1, rc,
               mf.error.id, mf.frame ? "yes" : "no");
        if (rc == -ENODATA) {
            break;
        }
        const int prc = regp_process(&p, &mf);
        printf("  regp_process: rc %d\n", prc);
        regp_free(&p, mf.frame);
    }
    printf("  => memory accesses: %d, reply octets: %zu\n", accesses, outlen);
    return accesses;
}

int
main(void)
{
    printf("The property demands: the frame failed reception, so no memory "
           "access may happen.\n\n");
    printf("serial channel (repaired twin):\n");
    const int serial = run(RP_EP_SERIAL);
    printf("\ntcp channel:\n");
    const int tcp = run(RP_EP_TCP);
    printf("\n");
    if (serial != 0) printf("DEFECT: serial channel accessed memory\n");
    if (tcp != 0) {
        printf("DEFECT: tcp channel executed a request that was never sent as "
               "a frame: the tail of the payload of a frame that failed "
               "reception was parsed as a new frame.\n");
    }
    return (serial != 0 || tcp != 0) ? 1 : 0;
}
