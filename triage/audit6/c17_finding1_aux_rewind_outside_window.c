/* C17 finding 1: sts_n_aux() and sts_drain_aux() write outside the auxiliary
 * buffer's designated region [offset, used) when offset > 0, and re-designate
 * the caller's ByteBuffer.
 *
 * sts_some_aux() and sts_atmost_aux() use b->data + b->offset .. b->used as
 * the window. The counted and the draining variants call byte_buffer_rewind()
 * on the caller's buffer before every step: the window's content is moved to
 * data[0], offset becomes 0, used shrinks - the transfer then runs through
 * data[0 .. used-offset), i.e. through octets in front of the window that the
 * caller reserved (offset > 0 is how ufw reserves a header in front of a
 * payload, see the postalloc callback of the continuable sink). */
#include <stdio.h>
#include <string.h>

#include <ufw/endpoints.h>

static int
run(const char *name, int drain)
{
    unsigned char in[] = { 0x11, 0x22, 0x33, 0x44, 0x55, 0x66 };
    unsigned char out[16];
    unsigned char mem[8];
    ByteBuffer sb = BYTE_BUFFER(in, sizeof(in));
    ByteBuffer ob = BYTE_BUFFER_EMPTY(out, sizeof(out));
    Source source;
    Sink sink;
    int bad = 0;

    source_from_buffer(&source, &sb);
    sink_to_buffer(&sink, &ob);

    /* Octets 0..3 hold something of the caller's ("HEAD"); the window for the
     * plumbing is mem[4..6), two octets; mem[6..8) is outside as well. */
    memcpy(mem, "HEADwwTT", 8);
    ByteBuffer aux = BYTE_BUFFER_INIT(mem, sizeof(mem), 6u, 4u);

    const ssize_t rc = drain ? sts_drain_aux(&source, &sink, &aux)
                             : sts_n_aux(&source, &sink, &aux, 6u);
    printf("%s: rc=%zd, sink holds %zu octets (%s)\n", name, rc, ob.used,
           (ob.used == 6u && memcmp(out, in, 6u) == 0) ? "the stream, in order"
                                                       : "NOT the stream");
    printf("  auxiliary memory before: 48 45 41 44 | 77 77 | 54 54   window = [4,6)\n");
    printf("  auxiliary memory after :");
    for (size_t i = 0; i < sizeof(mem); ++i) {
        printf(" %02x", mem[i]);
    }
    printf("\n  ByteBuffer after: offset=%zu used=%zu (was offset=4 used=6)\n",
           aux.offset, aux.used);
    if (memcmp(mem, "HEAD", 4) != 0 || memcmp(mem + 6, "TT", 2) != 0) {
        printf("  VIOLATION: octets outside the designated region [4,6) were overwritten\n");
        bad = 1;
    }
    if (aux.offset != 4u || aux.used != 6u) {
        printf("  NOTE: the caller's window was moved to [%zu,%zu)\n",
               aux.offset, aux.used);
    }
    return bad;
}

int
main(void)
{
    int bad = 0;
    printf("property: plumbing with an auxiliary buffer moves the octets "
           "'without touching octets outside the auxiliary buffer's "
           "designated region'\n");
    bad |= run("sts_n_aux(n=6)", 0);
    bad |= run("sts_drain_aux ", 1);

    /* The sibling calls honour the window: */
    {
        unsigned char in[] = { 0x11, 0x22, 0x33 };
        unsigned char out[8], mem[8];
        ByteBuffer sb = BYTE_BUFFER(in, sizeof(in));
        ByteBuffer ob = BYTE_BUFFER_EMPTY(out, sizeof(out));
        Source source; Sink sink;
        source_from_buffer(&source, &sb);
        sink_to_buffer(&sink, &ob);
        memcpy(mem, "HEADwwTT", 8);
        ByteBuffer aux = BYTE_BUFFER_INIT(mem, sizeof(mem), 6u, 4u);
        const ssize_t rc = sts_atmost_aux(&source, &sink, &aux, 5u);
        printf("sts_atmost_aux(n=5), same buffer: rc=%zd, head %s, tail %s\n", rc,
               memcmp(mem, "HEAD", 4) == 0 ? "intact" : "OVERWRITTEN",
               memcmp(mem + 6, "TT", 2) == 0 ? "intact" : "OVERWRITTEN");
    }
    return bad;
}
