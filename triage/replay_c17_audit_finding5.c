/* C17 finding 5: sts_atmost_via_source() (the path sts_atmost/sts_some/sts_n/
 * sts_drain take when the SOURCE offers a buffer through ext.getbuffer) turns
 * a zero-length return of a chunk source into -EINVAL.
 *
 * core.c:247   return (rc < 0) ? rc : sink_put_chunk(sink, buf, rc);
 * With rc == 0 this calls sink_put_chunk(sink, buf, 0), which refuses n == 0
 * with -EINVAL; sts_n/sts_drain then give up.  The sibling sts_some_aux() has
 * the correct test (rc <= 0).
 */
#include <stdio.h>
#include <string.h>
#include <errno.h>
#include <ufw/endpoints.h>

struct src { const unsigned char *s; size_t len, pos; int zero_at_call, calls; unsigned char scratch[4]; };
static ssize_t csrc(void *d, void *buf, size_t n) {
    struct src *s = d;
    if (++s->calls == s->zero_at_call) return 0;           /* "nothing right now" */
    if (s->pos == s->len) return -ENODATA;
    size_t m = s->len - s->pos; if (m > n) m = n;
    memcpy(buf, s->s + s->pos, m); s->pos += m; return (ssize_t)m;
}
static ByteBuffer src_getbuffer(Source *so) {               /* the source lends its scratch memory */
    struct src *s = so->driver;
    ByteBuffer b = BYTE_BUFFER(s->scratch, sizeof s->scratch);
    return b;
}

int main(void) {
    int bad = 0;
    static const unsigned char stream[6] = { 0xd1, 0xd2, 0xd3, 0xd4, 0xd5, 0xd6 };
    unsigned char out[16]; ByteBuffer ob = BYTE_BUFFER_EMPTY(out, sizeof out);
    struct src S = { stream, 6, 0, 2, 0, { 0 } };
    Source so; Sink si;
    chunk_source_init(&so, csrc, &S); so.ext.getbuffer = src_getbuffer;
    sink_to_buffer(&si, &ob);

    printf("chunk source with getbuffer extension (4 octet scratch), returns 0 on its 2nd call; sts_n(source, sink, 6)\n");
    printf("property: zero-length returns are tolerated, 6 octets arrive\n");
    ssize_t r = sts_n(&so, &si, 6);
    printf("sts_n returned %zd (-EINVAL=%d); sink holds %zu octets\n", r, -EINVAL, ob.used);
    if (r != 6 || ob.used != 6 || memcmp(out, stream, 6)) { printf("  VIOLATION: transfer aborted with -EINVAL by a zero-length source return\n"); bad = 1; }

    struct src S2 = { stream, 6, 0, 2, 0, { 0 } }; ob.used = 0;
    chunk_source_init(&so, csrc, &S2); so.ext.getbuffer = src_getbuffer;
    r = sts_drain(&so, &si);
    printf("sts_drain returned %zd; sink holds %zu of 6 octets\n", r, ob.used);
    if (ob.used != 6) { printf("  VIOLATION: drain stopped before the source's end\n"); bad = 1; }

    /* sibling without the defect */
    struct src S3 = { stream, 6, 0, 2, 0, { 0 } }; ob.used = 0; unsigned char aux[4]; ByteBuffer ab = BYTE_BUFFER(aux, 4);
    chunk_source_init(&so, csrc, &S3);
    r = sts_n_aux(&so, &si, &ab, 6);
    printf("for comparison sts_n_aux with the same driver behaviour returned %zd; sink holds %zu\n", r, ob.used);

    printf("\n%s\n", bad ? "finding-5: DEFECT REPRODUCED" : "finding-5: not reproduced");
    return bad;
}
