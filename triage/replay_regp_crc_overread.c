#include <stdio.h>
#include <stdlib.h>
#include <string.h>
#include <ufw/register-protocol.h>
#include <ufw/endpoints.h>
#include <ufw/byte-buffer.h>
static unsigned char in[1024], out[1024];
int main(void)
{
    /* let the library emit a serial 16-bit read request for 100 words */
    RegP q; regp_init(&q); ByteBuffer wb; byte_buffer_space(&wb, in, sizeof in); Sink s2; sink_to_buffer(&s2, &wb);
    regp_use_channel(&q, RP_EP_SERIAL, source_empty, s2);
    regp_req_read16(&q, 0x40, 100);
    size_t n = wb.used;                       /* ... C0 */
    printf("D26: emitted %zu octets, last %02x\n", n, in[n-1]);
    in[n-1] = 0x00; in[n] = 0xc0; n++;       /* one trailing octet after the header */
    RegP p; regp_init(&p);
    ByteBuffer inb, outb; Source src; Sink snk;
    byte_buffer_use(&inb, in, n); byte_buffer_space(&outb, out, sizeof out);
    source_from_buffer(&src, &inb); sink_to_buffer(&snk, &outb);
    regp_use_channel(&p, RP_EP_SERIAL, src, snk);
    RPMaybeFrame mf; fflush(stdout);
    int rc = regp_recv(&p, &mf);
    printf("D26: rc %d error.id %d payload.size %zu\n", rc, mf.error.id, mf.frame ? mf.frame->payload.size : 0);
    regp_free(&p, mf.frame);
    return 0;
}
