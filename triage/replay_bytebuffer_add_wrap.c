/* D27 (C18.e): byte_buffer_add capacity guard wraps for lengths near SIZE_MAX.
 * Expected by C18: add with insufficient space fails without change. */
#include <stdio.h>
#include <stdint.h>
#include <ufw/byte-buffer.h>
int main(void) {
    unsigned char mem[8], src[8] = {0};
    ByteBuffer b;
    byte_buffer_space(&b, mem, sizeof mem);
    byte_buffer_add(&b, src, 1);
    /* used = 1; n = SIZE_MAX: used + n wraps to 0, guard passes */
    int rc = byte_buffer_add(&b, src, SIZE_MAX);
    printf("rc=%d used=%zu (expected rc=-ENOMEM, used=1)\n", rc, b.used);
    return rc == 0;
}
