#!/usr/bin/env python3
"""seed_tool.py import <property> <agent worktree> <seed id> ["what it needs"]
      - copies <worktree>/MUTANT into seeded/<seed id>/, re-verifies it in a fresh scratch
        worktree of /repo (build, full ctest with the change, demo fails with / passes without),
        runs all checks against a scratch copy with the patch applied and writes meta.json.
   seed_tool.py recheck [seed ids...]  - re-run the checks against kept seeds (after strengthening)"""
import json, os, shutil, subprocess, sys, tempfile

HERE = os.path.dirname(os.path.abspath(__file__))
SEEDED = os.path.join(HERE, 'seeded')
ALL = ['C%02d' % i for i in range(1, 21)]


def sh(cmd, cwd=None, timeout=900, env=None):
    p = subprocess.run(cmd, shell=True, cwd=cwd, capture_output=True, text=True, errors='replace', timeout=timeout, env=env)
    return p.returncode, (p.stdout + p.stderr)


def run_checks(patch, props=ALL):
    tmp = tempfile.mkdtemp(prefix='ufwsa-seed-')
    try:
        for d in ('src', 'include', 'doc'):
            shutil.copytree(os.path.join('/repo', d), os.path.join(tmp, d), symlinks=True)
        shutil.copytree('/repo/_build/include', os.path.join(tmp, '_build_include'))
        rc, out = sh('patch -p1 -s -d %s -i %s' % (tmp, patch))
        if rc != 0:
            return {'error': 'patch does not apply: ' + out[-300:]}
        res = {}
        env = dict(os.environ, UFW_REPO=tmp, UFWSA_EVID=os.path.join(tmp, 'evid'), UFWSA_NO_CORPUS='1')
        from concurrent.futures import ThreadPoolExecutor

        def one(pid):
            p = subprocess.run([sys.executable, '-B', '-m', 'ufwsa.main', pid, '--tier', 'quick'], cwd=HERE, env=env,
                               capture_output=True, text=True)
            rules = [l.strip() for l in p.stdout.splitlines() if l.startswith('   rule=')]
            broken = [l.strip() for l in p.stdout.splitlines() if l.startswith('ANALYSIS-BROKEN')]
            return pid, p.returncode, rules, broken
        with ThreadPoolExecutor(max_workers=8) as ex:
            for pid, rc, rules, broken in ex.map(one, props):
                if rc != 0:
                    res[pid] = {'exit': rc, 'reports': [r[:400] for r in rules[:6]], 'broken': [b[:300] for b in broken[:3]]}
        return res
    finally:
        shutil.rmtree(tmp, ignore_errors=True)


def verify(sid, agent_wt):
    """independent confirmation in a fresh worktree"""
    d = os.path.join(SEEDED, sid)
    wt = tempfile.mkdtemp(prefix='seedverify-')
    os.rmdir(wt)
    out = {}
    rc, o = sh('git -C /repo worktree add --detach %s HEAD' % wt)
    try:
        if rc != 0:
            return {'error': o[-300:]}
        script = open(os.path.join(d, 'build_demo.sh')).read().replace(agent_wt, wt)
        demo_dir = os.path.join(wt, 'MUTANT')
        os.makedirs(demo_dir, exist_ok=True)
        for f in os.listdir(d):
            if f not in ('meta.json',):
                src = os.path.join(d, f)
                if os.path.isfile(src):
                    txt = open(src, 'rb').read().replace(agent_wt.encode(), wt.encode())
                    open(os.path.join(demo_dir, f), 'wb').write(txt)
        open(os.path.join(demo_dir, 'build_demo.sh'), 'w').write(script)
        build = 'cmake -G Ninja -S %s -B %s/_build >/dev/null && cmake --build %s/_build 2>&1 | tail -2' % (wt, wt, wt)
        # without the change
        rc, o = sh(build)
        out['build_original'] = rc
        rc, o = sh('sh ./build_demo.sh', cwd=demo_dir)
        out['demo_original_exit'] = rc
        out['demo_original_tail'] = o[-300:]
        # with the change
        rc, o = sh('git -C %s apply %s' % (wt, os.path.join(d, 'patch.diff')))
        out['patch_applies'] = rc == 0
        rc, o = sh(build)
        out['build_mutant'] = rc
        rc, o = sh('ctest --test-dir %s/_build -j8 2>&1 | tail -4' % wt)
        out['ctest_mutant'] = '100% tests passed' in o
        rc, o = sh('sh ./build_demo.sh', cwd=demo_dir)
        out['demo_mutant_exit'] = rc
        out['demo_mutant_tail'] = o[-400:]
        out['confirmed'] = bool(out['patch_applies'] and out['build_mutant'] == 0 and out['ctest_mutant']
                                and out['demo_original_exit'] == 0 and out['demo_mutant_exit'] != 0)
        return out
    finally:
        sh('git -C /repo worktree remove --force %s' % wt)
        shutil.rmtree(wt, ignore_errors=True)


def main():
    cmd = sys.argv[1]
    if cmd == 'import':
        pid, wt, sid = sys.argv[2:5]
        needs = sys.argv[5] if len(sys.argv) > 5 else ''
        d = os.path.join(SEEDED, sid)
        os.makedirs(d, exist_ok=True)
        for f in os.listdir(os.path.join(wt, 'MUTANT')):
            src = os.path.join(wt, 'MUTANT', f)
            if os.path.isfile(src) and os.path.getsize(src) < 200000 and not f.endswith(('.o', '.a')) and os.access(src, os.R_OK):
                if f in ('patch.diff', 'build_demo.sh', 'README.md') or f.endswith(('.c', '.h', '.sh', '.md', '.txt')):
                    shutil.copy(src, os.path.join(d, f))
        # the patch as the agent left the tree (authoritative)
        rc, o = sh('git -C %s diff HEAD -- src include' % wt)
        if o.strip():
            open(os.path.join(d, 'patch.diff'), 'w').write(o)
        v = verify(sid, wt)
        print('verify:', json.dumps({k: v[k] for k in v if not k.endswith('_tail')}))
        res = run_checks(os.path.join(d, 'patch.diff'))
        meta = {'seed': sid, 'property': pid, 'origin': 'sub-agent given only the property text and a scratch worktree',
                'needs_to_manifest': needs, 'verification': v,
                'what_was_run': 'fresh worktree of /repo HEAD: build + demo (passes); apply patch: build, full ctest (100%), demo (fails); '
                                './check C01..C20 --tier quick against a scratch copy of /repo with the patch applied',
                'checks_reporting': res, 'detected': bool(res.get(pid, {}).get('exit') == 1),
                'detected_by_any': [k for k, r in res.items() if isinstance(r, dict) and r.get('exit') == 1]}
        json.dump(meta, open(os.path.join(d, 'meta.json'), 'w'), indent=1)
        print('detected by', meta['detected_by_any'], '| broken:', [k for k, r in res.items() if isinstance(r, dict) and r.get('exit') == 2])
        for k, r in res.items():
            if isinstance(r, dict):
                for x in r.get('reports', [])[:2]:
                    print('  ', k, x[:220])
    elif cmd == 'recheck':
        ids = sys.argv[2:] or sorted(os.listdir(SEEDED))
        for sid in ids:
            d = os.path.join(SEEDED, sid)
            mp = os.path.join(d, 'meta.json')
            if not os.path.exists(mp):
                continue
            meta = json.load(open(mp))
            # /repo moves on (fix: commits); a seed whose original patch no longer applies carries a patch rebased by hand
            # onto the current tree (same change, same demonstration), the original stays as the record of what was made
            rb = os.path.join(d, 'patch-rebased.diff')
            res = run_checks(rb if os.path.exists(rb) else os.path.join(d, 'patch.diff'))
            meta['checks_reporting'] = res
            meta['detected'] = bool(res.get(meta['property'], {}).get('exit') == 1)
            meta['detected_by_any'] = [k for k, r in res.items() if isinstance(r, dict) and r.get('exit') == 1]
            json.dump(meta, open(mp, 'w'), indent=1)
            print('%-28s %s detected=%s by=%s broken=%s' % (sid, meta['property'], meta['detected'], meta['detected_by_any'],
                                                         [k for k, r in res.items() if isinstance(r, dict) and r.get('exit') == 2]))


if __name__ == '__main__':
    main()
