#!/bin/sh
# ./rebase_patch.sh <patch> [out]  - development aid: carry a corpus/seeded/refactor patch that no longer applies to /repo's HEAD
# forward: find the newest earlier commit of /repo it applies to, commit it there in a scratch worktree, cherry-pick onto HEAD
# (3-way) and write the resulting diff to <out> (default: <patch> itself).  Conflicts are left for reading (exit 1).
if [ "$1" = --finish ]; then git -C $2 diff HEAD -- src include > "$3"; git -C /repo worktree remove --force $2; git -C /repo worktree prune; echo "wrote $3"; exit 0; fi
p=$(readlink -f "$1"); out=${2:-$p}
wt=/tmp/wt-rb-$(basename "$(dirname "$p")")-$(basename "$p" .diff)
if git -C /repo apply --check "$p" 2>/dev/null; then echo "applies: $p"; exit 0; fi
base=
for c in $(git -C /repo log --format=%h -n 40 | tail -n +2); do
  git -C /repo worktree add -q --detach $wt $c 2>/dev/null || exit 2
  if git -C $wt apply --check "$p" 2>/dev/null; then base=$c; break; fi
  git -C /repo worktree remove --force $wt
done
[ -n "$base" ] || { echo "NOBASE $p"; exit 1; }
git -C $wt apply "$p" && git -C $wt add -A && git -C $wt -c user.email=x@x -c user.name=x commit -qm variant
v=$(git -C $wt rev-parse HEAD)
git -C $wt checkout -q --detach $(git -C /repo rev-parse HEAD)
if git -C $wt -c user.email=x@x -c user.name=x cherry-pick $v >/dev/null 2>&1; then
  git -C $wt diff HEAD~1 HEAD > "$out"; echo "rebased from $base: $p"; rc=0
else
  echo "CONFLICT (base $base): $p  -> resolve in $wt, then: ./rebase_patch.sh --finish $wt $out"; git -C $wt diff --name-only --diff-filter=U; exit 1
fi
git -C /repo worktree remove --force $wt; git -C /repo worktree prune
exit $rc
